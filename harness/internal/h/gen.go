package h

import (
	"bytes"
	"crypto/sha256"
	"encoding/binary"
	"encoding/hex"
	"fmt"
)

// Generators of cases. Every choice comes from the Rng passed in.

type GenParams struct {
	MaxCap         int // descriptor capacity is drawn from 0..MaxCap
	MinOps         int
	MaxOps         int
	BigEvery       int // one object in BigEvery may be large (tens of KiB); 0 = never
	Backend        string
	NoDefaultTime  bool // never rely on the wall clock (C12 variants)
	Queries        int  // up to this many read-only queries after each step
	DetMode        bool // C12: creation fixes ID and time; operations mostly deterministic/explicit
	PartitionHeavy bool // theme: mostly partitions (primary / system / data / overlay juggling)
	Scenario       int  // case counter: every fourth case is a directed history (scenarios.go)
}

var sizePoolSmall = []int{0, 0, 1, 2, 3, 7, 16, 31, 100, 127, 128, 129, 255, 383, 384, 385, 511, 512, 513, 600}
var sizePoolBig = []int{4095, 4096, 4097, 8191, 32767, 32768, 32769, 65535, 65536, 65537}
var alignPool = []int{0, 0, 0, 1, 2, 4, 8, 16, 64, 512, 1024, 4096, 4096, 8192, 65536, 3, 7, 1000, 4095, -1, -4096}

// GenContent makes a compressible but position-dependent byte string of length n.
func GenContent(r *Rng, n int) []byte {
	b := make([]byte, n)
	i := 0
	for i < n {
		run := 1 + r.Intn(200)
		if r.Chance(1, 4) {
			run = 1 + r.Intn(6)
		}
		if run > n-i {
			run = n - i
		}
		v := byte(1 + r.Intn(255))
		if r.Chance(1, 10) {
			v = 0
		}
		for k := 0; k < run; k++ {
			b[i+k] = v
		}
		i += run
	}
	return b
}

func genName(r *Rng) (string, bool) {
	switch r.Intn(10) {
	case 0, 1, 2:
		return "", false
	case 3:
		return "", true
	case 4:
		// exactly 128 bytes, no NUL
		b := make([]byte, 128)
		for i := range b {
			b[i] = byte('a' + r.Intn(26))
		}
		return string(b), true
	case 5:
		// UTF-8
		return "объект-" + string(rune('α'+r.Intn(20))) + "-名前", true
	case 6:
		if r.Chance(1, 3) {
			b := make([]byte, 129+r.Intn(3))
			for i := range b {
				b[i] = 'x'
			}
			return string(b), true // too long: rejected
		}
		fallthrough
	default:
		b := make([]byte, 1+r.Intn(40))
		for i := range b {
			b[i] = byte('A' + r.Intn(50))
		}
		return string(b), true
	}
}

func encSignature(ht int32, fp []byte) []byte {
	b := make([]byte, 4+256)
	binary.LittleEndian.PutUint32(b, uint32(ht))
	copy(b[4:], fp)
	return b
}

func sifHashType(h int) int32 {
	switch h {
	case 5: // crypto.SHA256
		return 1
	case 6: // SHA384
		return 2
	case 7: // SHA512
		return 3
	case 16: // BLAKE2s_256
		return 4
	case 17: // BLAKE2b_256
		return 5
	}
	return 0
}

func genMeta(r *Rng, typ int32, allowPrim bool) (Meta, bool) {
	// type-specific metadata mostly, raw/none/err sometimes
	k := r.Intn(12)
	if typ == DataPartition && k < 3 && r.Chance(2, 3) {
		k = 5
	}
	switch k {
	case 0:
		return Meta{}, false // no option
	case 1:
		n := Pick(r, []int{0, 1, 11, 12, 100, 383, 384})
		if r.Chance(1, 6) {
			n = 385 + r.Intn(3)
		}
		raw := GenContent(r, n)
		return Meta{Kind: MdRaw, Raw: raw, How: "raw"}, true
	case 2:
		if r.Chance(1, 3) {
			return Meta{Kind: MdErr}, true
		}
		return Meta{Kind: MdNone}, true
	}
	switch typ {
	case DataPartition:
		pt := int32(1 + r.Intn(4))
		if pt == 2 && !allowPrim && r.Chance(2, 3) {
			pt = 1
		}
		fs := int32(1 + r.Intn(5))
		arch := Pick(r, ArchNames)
		return Meta{Kind: MdPart, Fs: fs, Pt: pt, Arch: arch}, true
	case DataSignature:
		hs := []int{5, 6, 7, 16, 17, 3}
		hh := Pick(r, hs)
		fp := GenContent(r, 20)
		if r.Chance(1, 5) {
			fp = nil
		}
		return Meta{Kind: MdRaw, How: "signature", SigHash: hh, SigFP: fp, Raw: encSignature(sifHashType(hh), fp)}, true
	case DataCryptoMessage:
		a, b := int32(1+r.Intn(2)), int32(Pick(r, []int{0x100, 0x200}))
		raw := make([]byte, 8)
		binary.LittleEndian.PutUint32(raw, uint32(a))
		binary.LittleEndian.PutUint32(raw[4:], uint32(b))
		return Meta{Kind: MdRaw, How: "crypto", A: a, B: b, Raw: raw}, true
	case DataSBOM:
		a := int32(1 + r.Intn(8))
		raw := make([]byte, 4)
		binary.LittleEndian.PutUint32(raw, uint32(a))
		return Meta{Kind: MdRaw, How: "sbom", A: a, Raw: raw}, true
	}
	return Meta{}, false
}

// imgView is the little the generator tracks about the image to aim its operations.
type imgView struct {
	objs     []DInput // descriptor inputs of (probably) live objects, parallel to ids
	ids      []uint32 // probably-live object IDs
	cap      int
	ociIDs   []uint32
	partIDs  []uint32
	digests  []string
	nextFree int
}

func (v *imgView) someID(r *Rng) uint32 {
	if len(v.ids) > 0 && r.Chance(9, 10) {
		return Pick(r, v.ids)
	}
	return uint32(1 + r.Intn(v.cap+2))
}

func GenDInput(r *Rng, p GenParams, v *imgView, allowBig bool) DInput {
	d := DInput{FailAfter: -1}
	d.Type = Pick(r, AllDataTypes)
	if r.Chance(1, 4) || p.PartitionHeavy && r.Chance(2, 3) {
		d.Type = DataPartition
	}
	n := Pick(r, sizePoolSmall)
	if allowBig && p.BigEvery > 0 && r.Intn(p.BigEvery) == 0 {
		n = Pick(r, sizePoolBig)
	}
	d.Content = GenContent(r, n)
	switch r.Intn(8) {
	case 0:
		d.GroupOpt = 1
	case 1, 2:
		d.GroupOpt = 2
		d.Group = Pick(r, []uint32{1, 2, 2, 3, 5, 0x0fffffff})
		if r.Chance(1, 40) {
			d.Group = Pick(r, []uint32{0x10000000, 0xf0000001, 0xffffffff})
		}
	}
	switch r.Intn(8) {
	case 0:
		d.Link = LObject
		d.LinkID = v.someID(r)
	case 1:
		d.Link = LGroup
		d.LinkID = Pick(r, []uint32{1, 2, 3, 0x0fffffff})
	}
	if r.Chance(1, 2) || d.Type == DataPartition && r.Chance(1, 2) {
		d.AlignSet = true
		d.Align = Pick(r, alignPool)
	}
	d.Name, d.NameSet = genName(r)
	d.Md, d.MdSet = genMeta(r, d.Type, true)
	if r.Chance(1, 5) {
		d.TimeSet = true
		d.Time = Pick(r, []int64{0, 1, 1504657553, 1700000000, ZeroTime, -1, 4102444800})
	}
	if r.Chance(1, 25) && n > 0 {
		d.FailAfter = r.Intn(n + 1)
	}
	return d
}

func genTOpt(r *Rng, p GenParams) TOpt {
	k := r.Intn(10)
	if p.DetMode && k >= 7 && r.Chance(1, 2) {
		k = r.Intn(6)
	}
	switch {
	case k < 3:
		return TOpt{Kind: TDeterministic}
	case k < 6:
		return TOpt{Kind: TExplicit, T: Pick(r, []int64{1504657553, 1700000001, 946684800, ZeroTime, 0})}
	}
	if p.NoDefaultTime {
		return TOpt{Kind: TDeterministic}
	}
	return TOpt{Kind: TDefault}
}

// presentSelector aims a selector at an attribute value of an object believed to be live.
func presentSelector(r *Rng, v *imgView) (Selector, bool) {
	if len(v.objs) == 0 {
		return Selector{}, false
	}
	i := r.Intn(len(v.objs))
	d, id := v.objs[i], v.ids[i]
	switch r.Intn(8) {
	case 0:
		return Selector{Kind: SType, N: int64(d.Type)}, true
	case 1:
		return Selector{Kind: SID, N: int64(id)}, true
	case 2:
		if g := d.EffGroup(); g != 0 {
			return Selector{Kind: SGroup, N: int64(g &^ GroupMask)}, true
		}
		return Selector{Kind: SNoGroup}, true
	case 3:
		switch d.Link {
		case LObject:
			return Selector{Kind: SLinkedID, N: int64(d.LinkID &^ GroupMask)}, true
		case LGroup:
			return Selector{Kind: SLinkedGroup, N: int64(d.LinkID &^ GroupMask)}, true
		}
	case 4:
		// the same number as object link and as group link
		if d.Link != LNone {
			if r.Chance(1, 2) {
				return Selector{Kind: SLinkedID, N: int64(d.LinkID &^ GroupMask)}, true
			}
			return Selector{Kind: SLinkedGroup, N: int64(d.LinkID &^ GroupMask)}, true
		}
	case 5:
		if m := d.EffMd(); m.Kind == MdPart {
			return Selector{Kind: SPartType, N: int64(m.Pt)}, true
		}
	case 6, 7:
		if d.Type == DataOCIBlob || d.Type == DataOCIRootIndex {
			return Selector{Kind: SOCIDigest, Alg: "sha256", Hex: Sha256Hex(d.Content)}, true
		}
	}
	return Selector{}, false
}

func GenSelector(r *Rng, v *imgView) Selector {
	if r.Chance(1, 2) {
		if s, ok := presentSelector(r, v); ok {
			return s
		}
	}
	switch r.Intn(14) {
	case 0:
		return Selector{Kind: SType, N: int64(Pick(r, AllDataTypes))}
	case 1, 2, 3:
		return Selector{Kind: SID, N: int64(v.someID(r))}
	case 4:
		return Selector{Kind: SNoGroup}
	case 5:
		if r.Chance(1, 4) { // values no stored group can have: nothing matches
			return Selector{Kind: SGroup, N: int64(Pick(r, []uint32{0xf0000000, 0x10000001, 0xf0000001, 0xffffffff, 0x10000000}))}
		}
		return Selector{Kind: SGroup, N: int64(Pick(r, []uint32{1, 2, 3, 5, 0x0fffffff, 0}))}
	case 6:
		if r.Chance(1, 5) {
			return Selector{Kind: SLinkedID, N: int64(Pick(r, []uint32{0xf0000001, 0x10000001, 0xffffffff}))}
		}
		return Selector{Kind: SLinkedID, N: int64(v.someID(r))}
	case 7:
		if r.Chance(1, 5) {
			return Selector{Kind: SLinkedGroup, N: int64(Pick(r, []uint32{0xf0000001, 0x10000001, 0xf0000000}))}
		}
		return Selector{Kind: SLinkedGroup, N: int64(Pick(r, []uint32{1, 2, 3, 0}))}
	case 8:
		return Selector{Kind: SPartType, N: int64(r.Intn(6))}
	case 9:
		if len(v.digests) > 0 && r.Chance(1, 4) { // a proper prefix of a stored digest, or nothing at all
			d := Pick(r, v.digests)
			return Selector{Kind: SOCIDigest, Alg: "sha256", Hex: d[:Pick(r, []int{0, 1, 10, 63})]}
		}
		if len(v.digests) > 0 && r.Chance(3, 4) {
			return Selector{Kind: SOCIDigest, Alg: "sha256", Hex: Pick(r, v.digests)}
		}
		return Selector{Kind: SOCIDigest, Alg: "sha256", Hex: hex.EncodeToString(make([]byte, 32))}
	case 10:
		return Selector{Kind: SID, N: 0}
	case 11:
		return Selector{Kind: SCustom, Custom: CSizeGe, N: int64(Pick(r, []int{0, 1, 100, 1000}))}
	case 12:
		return Selector{Kind: SCustom, Custom: CNameNonEmpty}
	}
	return Selector{Kind: SCustom, Custom: Pick(r, []CustomKind{CTrue, CFalse})}
}

func Sha256Hex(b []byte) string {
	s := sha256.Sum256(b)
	return hex.EncodeToString(s[:])
}

// GenHistory generates a creation followed by a history of operations.
func GenHistory(r *Rng, id int, p GenParams) Case {
	c := Case{ID: id, Backend: p.Backend}
	p.PartitionHeavy = r.Chance(1, 4)
	co := &COpts{}
	c.Create = co
	capacity := r.Intn(p.MaxCap + 1)
	if r.Chance(1, 3) {
		capacity = 1 + r.Intn(4)
	}
	if r.Chance(1, 50) {
		co.CapSet = false
		capacity = 48
	} else {
		co.CapSet = true
		co.Cap = int64(capacity)
	}
	if r.Chance(1, 2) {
		co.LaunchSet = true
		n := r.Intn(32)
		if r.Chance(1, 30) {
			n = 32 + r.Intn(3)
		}
		b := []byte("#!/usr/bin/env run-singularity\n\x00\x00\x00\x00")
		for len(b) < n {
			b = append(b, byte('a'+r.Intn(26)))
		}
		co.Launch = string(b[:n])
	}
	// the longest launch script that fits, and the shortest that does not
	switch p.Scenario % 16 {
	case 5:
		co.LaunchSet, co.Launch = true, "#!/bin/sh\n"+string(bytes.Repeat([]byte{'x'}, 22))
	case 13:
		co.LaunchSet, co.Launch = true, "#!/bin/sh\n"+string(bytes.Repeat([]byte{'x'}, 21))
	}
	co.IDKind = r.Intn(3)
	if co.IDKind == 1 {
		for i := range co.ID {
			co.ID[i] = byte(r.U64())
		}
		if r.Chance(1, 5) { // the nil UUID given explicitly is an ID like any other
			co.ID = [16]byte{}
		}
	}
	co.TimeKind = r.Intn(3)
	if p.DetMode {
		// the options fix both ID and time: deterministic, or explicit ID and explicit time
		if r.Chance(1, 2) {
			co.IDKind, co.TimeKind = 2, 2
			if r.Chance(1, 3) {
				co.TimeKind = 1
			}
		} else {
			co.IDKind, co.TimeKind = 1, 1
			for i := range co.ID {
				co.ID[i] = byte(r.U64())
			}
		}
	}
	if p.NoDefaultTime && co.TimeKind == 0 {
		co.TimeKind = 1
	}
	if p.NoDefaultTime && co.IDKind == 0 {
		co.IDKind = 1 + r.Intn(2)
		for i := range co.ID {
			co.ID[i] = byte(r.U64())
		}
	}
	if co.TimeKind == 1 {
		co.Time = Pick(r, []int64{1504657553, 1700000000, 0, 1, ZeroTime})
	}
	co.Order = []string{"det", "launch", "id", "time", "cap", "dis"}
	if r.Chance(1, 2) { // any order: a later option overrides an earlier one
		for i := len(co.Order) - 1; i > 0; i-- {
			j := r.Intn(i + 1)
			co.Order[i], co.Order[j] = co.Order[j], co.Order[i]
		}
	}
	if p.Scenario%4 == 3 {
		k := (p.Scenario / 4) % NScenarios
		dis, ops, det := scenario(k, r, p)
		if det {
			co.IDKind, co.TimeKind = 2, 2
		}
		co.CapSet, co.Cap = true, int64(len(dis)+2+r.Intn(3))
		if k == 7 { // room for every add of the history
			co.Cap = int64(len(dis) + len(ops) + r.Intn(2))
		}
		co.DIs = dis
		v := &imgView{cap: int(co.Cap)}
		for i, d := range dis {
			v.note(d, uint32(i+1))
		}
		// every typed accessor of every object, after creation and after each step
		metaAll := func() []Query {
			var qs []Query
			for id := int64(1); id <= co.Cap; id++ {
				qs = append(qs, Query{Kind: "meta", ID: uint32(id)})
			}
			return qs
		}
		c.InitQueries = append(append(GenQueries(r, v, p.Queries), probeQueries(r)...), metaAll()...)
		for _, op := range ops {
			c.Steps = append(c.Steps, Step{Op: op, Queries: append(append(GenQueries(r, v, p.Queries), probeQueries(r)...), metaAll()...)})
		}
		c.Tags = append(c.Tags, fmt.Sprintf("scenario-%d", k))
		return c
	}
	v := &imgView{cap: capacity}
	nInit := 0
	if capacity > 0 && r.Chance(1, 2) {
		nInit = 1 + r.Intn(min(capacity, 3))
		if r.Chance(1, 30) {
			nInit = capacity + 1
		}
	}
	for i := 0; i < nInit; i++ {
		d := GenDInput(r, p, v, true)
		if r.Chance(9, 10) { // keep creation mostly successful
			d.FailAfter = -1
			if len(d.Name) > 128 {
				d.Name = d.Name[:100]
			}
			if d.Md.Kind == MdErr || d.Md.Kind == MdRaw && len(d.Md.Raw) > 384 {
				d.MdSet = false
			}
		}
		co.DIs = append(co.DIs, d)
		v.note(d, uint32(i+1))
	}
	c.InitQueries = GenQueries(r, v, p.Queries)
	nOps := p.MinOps + r.Intn(p.MaxOps-p.MinOps+1)
	for i := 0; i < nOps; i++ {
		op := GenOp(r, p, v)
		c.Steps = append(c.Steps, Step{Op: op, Queries: GenQueries(r, v, p.Queries)})
	}
	return c
}

// GenQueries draws up to n read-only queries.
func GenQueries(r *Rng, v *imgView, n int) []Query {
	var qs []Query
	k := r.Intn(n + 1)
	for i := 0; i < k; i++ {
		switch r.Intn(5) {
		case 0:
			qs = append(qs, Query{Kind: "data", ID: v.someID(r)})
		case 1:
			qs = append(qs, Query{Kind: "meta", ID: v.someID(r)})
			if r.Chance(1, 2) {
				qs = append(qs, Query{Kind: "header"})
			}
		default:
			q := Query{Kind: "many"}
			if r.Chance(2, 5) {
				q.Kind = "one"
			}
			for j, m := 0, r.Intn(4); j < m; j++ {
				s := GenSelector(r, v)
				if r.Chance(1, 12) {
					s = Selector{Kind: SCustom, Custom: CErrOnID, N: int64(v.someID(r))}
				}
				q.Sels = append(q.Sels, s)
			}
			qs = append(qs, q)
		}
	}
	return qs
}

func (v *imgView) note(d DInput, id uint32) {
	v.ids = append(v.ids, id)
	v.objs = append(v.objs, d)
	if d.Type == DataOCIBlob || d.Type == DataOCIRootIndex {
		v.ociIDs = append(v.ociIDs, id)
		v.digests = append(v.digests, Sha256Hex(d.Content))
	}
	if d.Type == DataPartition {
		v.partIDs = append(v.partIDs, id)
	}
}

func GenOp(r *Rng, p GenParams, v *imgView) Op {
	k := r.Intn(100)
	switch {
	case k < 42:
		d := GenDInput(r, p, v, true)
		if r.Chance(1, 7) {
			// the separate stream of rejected calls: keep the description (in particular a
			// primary partition) and give it one reason to be refused after the checks
			switch r.Intn(3) {
			case 0:
				d.NameSet, d.Name = true, string(make([]byte, 129+r.Intn(2)))
				d.Name = "n" + d.Name[1:]
			case 1:
				if len(d.Content) == 0 {
					d.Content = GenContent(r, 1+r.Intn(50))
				}
				d.FailAfter = r.Intn(len(d.Content) + 1)
			default:
				if d.Type != DataPartition {
					d.MdSet, d.Md = true, Meta{Kind: MdRaw, How: "raw", Raw: GenContent(r, 385+r.Intn(3))}
				} else {
					d.FailAfter = 0
				}
			}
		}
		// guess the ID it will get: lowest free
		used := map[uint32]bool{}
		for _, id := range v.ids {
			used[id] = true
		}
		id := uint32(1)
		for used[id] {
			id++
		}
		if int(id) <= v.cap && d.FailAfter < 0 && len(d.Name) <= 128 {
			v.note(d, id)
		}
		return Op{Kind: OpAdd, DI: d, T: genTOpt(r, p)}
	case k < 62:
		o := Op{Kind: OpDelete, T: genTOpt(r, p)}
		if r.Chance(2, 3) {
			o.ByID = true
			o.Sel = Selector{Kind: SID, N: int64(v.someID(r))}
			if r.Chance(1, 30) {
				o.Sel.N = 0
			}
		} else {
			o.Sel = GenSelector(r, v)
			if o.Sel.Kind == SCustom && o.Sel.Custom == CTrue && r.Chance(2, 3) {
				o.Sel = Selector{Kind: SGroup, N: 2}
			}
		}
		if r.Chance(1, 2) {
			o.ZeroSet, o.Zero = true, r.Chance(2, 3)
		}
		if r.Chance(1, 2) {
			o.CompactSet, o.Compact = true, r.Chance(2, 3)
		}
		if o.ByID {
			// forget the id
			for i, id := range v.ids {
				if int64(id) == o.Sel.N {
					v.ids = append(v.ids[:i:i], v.ids[i+1:]...)
					v.objs = append(v.objs[:i:i], v.objs[i+1:]...)
					break
				}
			}
		}
		return o
	case k < 72:
		id := v.someID(r)
		if len(v.partIDs) > 0 && r.Chance(3, 4) {
			id = Pick(r, v.partIDs)
		}
		if r.Chance(1, 30) {
			id = 0
		}
		return Op{Kind: OpSetPrim, ID: id, T: genTOpt(r, p)}
	case k < 82:
		o := Op{Kind: OpSetMeta, ID: v.someID(r), T: genTOpt(r, p)}
		switch r.Intn(8) {
		case 0:
			o.Md = Meta{Kind: MdNone}
		case 1:
			o.Md = Meta{Kind: MdErr}
		case 2:
			o.Md = Meta{Kind: MdRaw, Raw: GenContent(r, 385+r.Intn(2))}
		default:
			o.Md = Meta{Kind: MdRaw, Raw: GenContent(r, Pick(r, []int{0, 1, 4, 11, 12, 100, 384}))}
		}
		if r.Chance(1, 30) {
			o.ID = 0
		}
		return o
	case k < 90:
		id := v.someID(r)
		if len(v.ociIDs) > 0 && r.Chance(3, 4) {
			id = Pick(r, v.ociIDs)
		}
		o := Op{Kind: OpSetOCI, ID: id, T: genTOpt(r, p), Alg: "sha256"}
		o.Hex = Sha256Hex(GenContent(r, 8))
		switch r.Intn(10) {
		case 0:
			o.Hex = "abc" // not a valid digest, still stored verbatim
		case 1:
			o.Alg = "sha512"
			o.Hex = hex.EncodeToString(GenContent(r, 64))
		case 2:
			o.Hex = hex.EncodeToString(GenContent(r, 200)) // too long for the field
		}
		if o.Alg == "sha256" && len(o.Hex) == 64 {
			v.digests = append(v.digests, o.Hex)
		}
		return o
	default:
		return Op{Kind: OpReload}
	}
}

package h

import (
	"bytes"
	"errors"
	"fmt"
	"io"

	"github.com/sylabs/sif/v2/pkg/sif"
)

// C09: recording and fault-injecting ReadWriter, crash-image reconstruction.

type RecCall struct {
	Kind int // 0 Seek(arg, Start), 1 Write, 2 Truncate(arg), 3 Seek(0, End), 4 other seek
	Arg  int64
	Data []byte
}

var ErrInjected = errors.New("harness: injected I/O failure")

// Recorder wraps storage, records the mutating calls and can make the k-th one fail.
type Recorder struct {
	B      *sif.Buffer
	Calls  []RecCall
	FailAt int  // index of the call to fail, -1 for none
	Short  bool // the failing call is a write that writes half of its data and reports a short write
	Failed bool
	merge  bool
}

func (r *Recorder) ReadAt(p []byte, off int64) (int, error) { return r.B.ReadAt(p, off) }

func (r *Recorder) next() bool {
	fail := r.FailAt >= 0 && len(r.Calls) == r.FailAt
	if fail {
		r.Failed = true
	}
	return fail
}

func (r *Recorder) Write(p []byte) (int, error) {
	// consecutive writes (io.Copy chunks) are one logical call
	if n := len(r.Calls); n > 0 && r.Calls[n-1].Kind == 1 && !r.Failed && len(p) > 0 && r.merge {
		r.Calls[n-1].Data = append(r.Calls[n-1].Data, p...)
		r.Calls[n-1].Arg += int64(len(p))
		return r.B.Write(p)
	}
	if r.next() {
		r.Calls = append(r.Calls, RecCall{Kind: 1, Arg: int64(len(p))})
		if r.Short && len(p) > 1 {
			n, _ := r.B.Write(p[:len(p)/2])
			return n, io.ErrShortWrite
		}
		return 0, ErrInjected
	}
	r.Calls = append(r.Calls, RecCall{Kind: 1, Arg: int64(len(p)), Data: append([]byte(nil), p...)})
	r.merge = true
	return r.B.Write(p)
}

func (r *Recorder) Seek(off int64, whence int) (int64, error) {
	r.merge = false
	k := 4
	switch {
	case whence == io.SeekStart:
		k = 0
	case whence == io.SeekEnd && off == 0:
		k = 3
	}
	if r.next() {
		r.Calls = append(r.Calls, RecCall{Kind: k, Arg: off})
		return 0, ErrInjected
	}
	r.Calls = append(r.Calls, RecCall{Kind: k, Arg: off})
	return r.B.Seek(off, whence)
}

func (r *Recorder) Truncate(n int64) error {
	r.merge = false
	if r.next() {
		r.Calls = append(r.Calls, RecCall{Kind: 2, Arg: n})
		return ErrInjected
	}
	r.Calls = append(r.Calls, RecCall{Kind: 2, Arg: n})
	return r.B.Truncate(n)
}

// applyOn performs op on a fresh handle loaded from pre through a Recorder.
func applyOn(pre []byte, op Op, failAt int, short bool) (*Recorder, string, []byte, error) {
	rec := &Recorder{B: sif.NewBuffer(bytes.Clone(pre)), FailAt: failAt, Short: short}
	f, err := sif.LoadContainer(rec, sif.OptLoadWithCloseOnUnload(false))
	if err != nil {
		return nil, "", nil, err
	}
	rec.Calls = nil
	h := &Handle{F: f, BE: bufBackend{rec.B}}
	opc := op
	res, _, err := Apply(h, &opc)
	if err != nil {
		return nil, "", nil, err
	}
	return rec, res, bytes.Clone(rec.B.Bytes()), nil
}

// posixApply replays recorded calls on raw bytes with POSIX semantics; tornAt >= 0 cuts the
// last call (a write) after that many bytes.
func posixApply(pre []byte, calls []RecCall, upto int, tornAt int) []byte {
	st := bytes.Clone(pre)
	pos := int64(0)
	for i := 0; i < upto; i++ {
		c := calls[i]
		switch c.Kind {
		case 0:
			pos = c.Arg
		case 3:
			pos = int64(len(st))
		case 2:
			if c.Arg <= int64(len(st)) {
				st = st[:c.Arg]
			} else {
				st = append(st, make([]byte, c.Arg-int64(len(st)))...)
			}
		case 1:
			data := c.Data
			if i == upto-1 && tornAt >= 0 && tornAt < len(data) {
				data = data[:tornAt]
			}
			if len(data) == 0 {
				continue
			}
			if end := pos + int64(len(data)); end > int64(len(st)) {
				st = append(st, make([]byte, end-int64(len(st)))...)
			}
			copy(st[pos:], data)
			pos += int64(len(data))
		}
	}
	return st
}

// CrashStats counts what the crash oracle covered.
type CrashStats struct {
	Boundaries, Torn, Faults, ShortWrites int
}

// OracleCrash evaluates C09 for one (pre-state, operation) pair on the implementation.
func OracleCrash(caseID int, pre []byte, op Op, thorough bool, st *CrashStats) ([]RecCall, string, []Finding) {
	var out []Finding
	add := func(format string, a ...any) {
		out = append(out, Finding{Property: "C09", Case: caseID, Step: 1, What: fmt.Sprintf(format, a...),
			Input: fmt.Sprintf("pre-state %d bytes; %s", len(pre), op.Coq())})
	}
	preImg, err := DecodeImage(pre)
	if err != nil {
		return nil, "", nil
	}
	rec, res, _, err := applyOn(pre, op, -1, false)
	if err != nil {
		return nil, "", nil
	}
	calls := rec.Calls

	// targets of the operation
	target := map[uint32]bool{}
	switch op.Kind {
	case OpSetPrim:
		target[op.ID] = true
		for _, d := range preImg.Descs {
			if d.Used && d.IsPrimary() {
				target[d.ID] = true
			}
		}
	case OpSetMeta, OpSetOCI:
		target[op.ID] = true
	case OpDelete:
		for _, d := range preImg.Descs {
			if d.Used {
				if m, e := SpecMatch(op.Sel, d); e == "" && m {
					target[d.ID] = true
				}
			}
		}
	}
	freeSlot := -1
	for i, d := range preImg.Descs {
		if !d.Used {
			freeSlot = i
			break
		}
	}

	check := func(img []byte, where string, boundary bool) {
		f, err := sif.LoadContainer(sif.NewBuffer(bytes.Clone(img)), sif.OptLoadWithCloseOnUnload(false))
		if err != nil {
			add("crash %s: the file no longer loads: %v", where, err)
			return
		}
		ci, err := DecodeImage(img)
		if err != nil {
			add("crash %s: independent decoder fails: %v", where, err)
			return
		}
		// ... and through the library: every untouched object is still enumerated, with its
		// attributes and its bytes
		seen := map[uint32]sif.Descriptor{}
		f.WithDescriptors(func(d sif.Descriptor) bool {
			if _, dup := seen[d.ID()]; !dup {
				seen[d.ID()] = d
			}
			return false
		})
		for _, d := range preImg.Descs {
			if !d.Used || target[d.ID] {
				continue
			}
			ld, ok := seen[d.ID]
			if !ok {
				add("crash %s: the loaded image no longer enumerates untouched object %d", where, d.ID)
				continue
			}
			if ld.Offset() != d.Off || ld.Size() != d.Size || int32(ld.DataType()) != d.Type || ld.GroupID() != d.GroupID() {
				add("crash %s: the loaded image reports other attributes for untouched object %d", where, d.ID)
				continue
			}
			if want, ok := region(pre, d); ok {
				if got, err := ld.GetData(); err != nil || !bytes.Equal(got, want) {
					add("crash %s: the loaded image returns other bytes for untouched object %d (err=%v)", where, d.ID, err)
				}
			}
		}
		for i, d := range preImg.Descs {
			if !d.Used || target[d.ID] {
				continue
			}
			if i >= len(ci.Descs) {
				add("crash %s: object %d lost", where, d.ID)
				continue
			}
			dn, cn := d, ci.Descs[i]
			dn.UsedByte, cn.UsedByte = 1, 1
			if !cn.Used || !bytes.Equal(EncodeDesc(dn), EncodeDesc(cn)) {
				add("crash %s: descriptor of untouched object %d (slot %d) damaged", where, d.ID, i)
				continue
			}
			x, ok1 := region(pre, d)
			y, ok2 := region(img, d)
			if ok1 && (!ok2 || !bytes.Equal(x, y)) {
				add("crash %s: content of untouched object %d damaged", where, d.ID)
			}
		}
		// between calls an object being added is absent or completely present
		if boundary && op.Kind == OpAdd && freeSlot >= 0 && freeSlot < len(ci.Descs) && ci.Descs[freeSlot].Used {
			nd := ci.Descs[freeSlot]
			got, ok := region(img, nd)
			if nd.Size != int64(len(op.DI.Content)) || !ok || !bytes.Equal(got, op.DI.Content) {
				add("crash %s: added object present but incomplete (size %d of %d)", where, nd.Size, len(op.DI.Content))
			}
		}
	}

	for k := 0; k <= len(calls); k++ {
		st.Boundaries++
		check(posixApply(pre, calls, k, -1), fmt.Sprintf("after %d of %d calls", k, len(calls)), true)
		if k < len(calls) && calls[k].Kind == 1 {
			n := len(calls[k].Data)
			step := 512
			isMeta := k >= len(calls)-4 // the table and header writes come last
			if isMeta {
				step = 1
				if !thorough && n > 256 {
					step = 37
				}
			}
			for t := 1; t < n; t += step {
				st.Torn++
				check(posixApply(pre, calls, k+1, t), fmt.Sprintf("inside call %d (write of %d bytes) after %d bytes", k, n, t), false)
			}
		}
	}

	// every single injected failure must surface as an error
	for k := 0; k < len(calls); k++ {
		st.Faults++
		recf, resf, _, err := applyOn(pre, op, k, false)
		if err == nil && recf.Failed && resf == "Ok" {
			add("I/O failure injected into call %d (kind %d) was swallowed: the operation returned nil", k, calls[k].Kind)
		}
		if calls[k].Kind == 1 && calls[k].Arg > 1 {
			st.ShortWrites++
			recs, ress, _, err := applyOn(pre, op, k, true)
			if err == nil && recs.Failed && ress == "Ok" {
				add("short write injected into call %d was swallowed: the operation returned nil", k)
			}
		}
	}
	return calls, res, out
}

// SignFaults (C09, "sign"): every storage call Sign issues is made to fail once (full failure
// and short write); Sign must return an error, and the file must still load with every object
// it held before unchanged. Also every crash point between calls: the image loads and keeps
// its objects. Returns the findings and the number of calls / injected failures.
func SignFaults(k *Keys, caseID int, pre []byte, cfg SignConfig, desc string) ([]Finding, int, int) {
	var out []Finding
	bad := func(format string, a ...any) {
		out = append(out, Finding{Property: "C09", Case: caseID, What: fmt.Sprintf(format, a...), Input: desc})
	}
	run := func(failAt int, short bool) (*Recorder, error, bool) {
		rec := &Recorder{B: sif.NewBuffer(bytes.Clone(pre)), FailAt: -1}
		f, err := sif.LoadContainer(rec, sif.OptLoadWithCloseOnUnload(false))
		if err != nil {
			return nil, nil, false
		}
		rec.Calls, rec.FailAt, rec.Short = nil, failAt, short
		return rec, SignOnHandle(k, f, cfg), true
	}
	base, err, ok := run(-1, false)
	if !ok || err != nil {
		return nil, 0, 0
	}
	preImg, derr := DecodeImage(pre)
	if derr != nil {
		return nil, 0, 0
	}
	keeps := func(img []byte, what string) {
		f2, err := sif.LoadContainer(sif.NewBuffer(bytes.Clone(img)), sif.OptLoadWithCloseOnUnload(false))
		if err != nil {
			bad("%s: the file no longer loads: %v", what, err)
			return
		}
		_ = f2
		post, err := DecodeImage(img)
		if err != nil {
			bad("%s: the file no longer decodes: %v", what, err)
			return
		}
		for i, d := range preImg.Descs {
			if !d.Used {
				continue
			}
			if i >= len(post.Descs) || !bytes.Equal(EncodeDesc(d), EncodeDesc(post.Descs[i])) {
				bad("%s: descriptor of object %d changed", what, d.ID)
			} else if !bytes.Equal(sectionBytes(pre, d), sectionBytes(img, d)) {
				bad("%s: content of object %d changed", what, d.ID)
			}
		}
	}
	n, faults := len(base.Calls), 0
	for i := 0; i < n; i++ {
		for _, short := range []bool{false, true} {
			if short && base.Calls[i].Kind != 1 {
				continue
			}
			rec, err, ok := run(i, short)
			if !ok {
				continue
			}
			faults++
			if rec.Failed && err == nil {
				bad("I/O failure injected into call %d of Sign (kind %d, short=%v) was swallowed: Sign returned nil", i, base.Calls[i].Kind, short)
			}
			keeps(rec.B.Bytes(), fmt.Sprintf("after a failure of call %d of Sign", i))
		}
		// crash between calls: the first i calls reached the storage
		keeps(posixApply(pre, base.Calls, i, -1), fmt.Sprintf("crash after %d of %d calls of Sign", i, n))
	}
	return out, n, faults
}

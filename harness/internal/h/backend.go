package h

import (
	"errors"
	"fmt"
	"io"
	"os"
	"strings"

	"github.com/sylabs/sif/v2/pkg/sif"
)

// Raw ReadWriter call sequences applied to a real *os.File and a real sif.Buffer (C14): validates
// the Coq file model against the operating system and the Buffer transliteration against buffer.go.

type BCall struct {
	Kind   string // "read", "write", "seek", "trunc"
	N      int    // read length
	Off    int64  // read offset / seek offset / truncate length
	Whence int    // 0,1,2, anything else = invalid
	Data   []byte
	// observed
	RData []byte
	RN    int64
	RErr  int // 0 none, 1 EOF, 2 other
}

func (c BCall) Coq() string {
	var call string
	switch c.Kind {
	case "read":
		call = fmt.Sprintf("CReadAt %d%%nat %s", c.N, CoqZ(c.Off))
	case "write":
		call = "CWrite (expand " + CoqRLE(c.Data) + ")"
	case "seek":
		w := "SeekBad"
		switch c.Whence {
		case 0:
			w = "SeekStart"
		case 1:
			w = "SeekCurrent"
		case 2:
			w = "SeekEnd"
		}
		call = fmt.Sprintf("CSeek %s %s", CoqZ(c.Off), w)
	default:
		call = "CTruncate " + CoqZ(c.Off)
	}
	return fmt.Sprintf("(%s, mkBR %s %s %d)", call, CoqRLE(c.RData), CoqZ(c.RN), c.RErr)
}

type BCase struct {
	ID     int
	Buffer bool
	Init   []byte
	Calls  []BCall
	Final  []byte
}

func (c BCase) Coq() string {
	var cs []string
	for _, x := range c.Calls {
		cs = append(cs, x.Coq())
	}
	return fmt.Sprintf("mkBCase %d %s %s\n  [%s]\n  %s", c.ID, CoqBool(c.Buffer), CoqRLE(c.Init), strings.Join(cs, ";\n   "), CoqRLE(c.Final))
}

func BCasesFile(cs []BCase) string {
	var sb strings.Builder
	sb.WriteString("From Coq Require Import List ZArith.\nFrom Coq.Init Require Import Byte.\n")
	sb.WriteString("From Sif Require Import Bytes Store Backends Exec.\nImport ListNotations.\nLocal Open Scope Z_scope.\n")
	sb.WriteString("Definition cases : list bcase := [\n")
	for i, c := range cs {
		if i > 0 {
			sb.WriteString(";\n")
		}
		sb.WriteString(c.Coq())
	}
	sb.WriteString("].\nDefinition M := Eval vm_compute in bmismatches cases.\nPrint M.\n")
	return sb.String()
}

func errClassIO(err error) int {
	switch {
	case err == nil:
		return 0
	case errors.Is(err, io.EOF):
		return 1
	}
	return 2
}

// GenBCalls draws a call sequence; inContract restricts it to the Buffer's documented contract.
func GenBCalls(r *Rng, n int, inContract bool) []BCall {
	var cs []BCall
	size := int64(0) // rough guess of the current size, to aim offsets
	pos := int64(0)
	for i := 0; i < n; i++ {
		switch r.Intn(10) {
		case 0, 1, 2:
			c := BCall{Kind: "write", Data: GenContent(r, Pick(r, []int{1, 2, 7, 64, 300, 1000}))}
			if !inContract && r.Chance(1, 4) {
				c.Data = nil
			}
			if inContract && r.Chance(1, 8) && pos <= size {
				c.Data = nil // an empty write inside the data is in the contract
			}
			cs = append(cs, c)
			pos += int64(len(c.Data))
			if pos > size {
				size = pos
			}
		case 3, 4, 5:
			c := BCall{Kind: "seek", Whence: r.Intn(3)}
			base := []int64{0, pos, size}[c.Whence]
			target := int64(r.Intn(int(size) + 200))
			if r.Chance(1, 6) {
				target = size + int64(r.Intn(3000))
			}
			c.Off = target - base
			if r.Chance(1, 12) {
				c.Off = -base - 1 - int64(r.Intn(5)) // negative resulting position: an error
			}
			if !inContract && r.Chance(1, 10) {
				c.Whence = 7
			}
			cs = append(cs, c)
			if c.Whence <= 2 && base+c.Off >= 0 {
				pos = base + c.Off
			}
		case 6, 7, 8:
			c := BCall{Kind: "read", N: Pick(r, []int{1, 2, 16, 100, 1000}), Off: int64(r.Intn(int(size) + 50))}
			if r.Chance(1, 6) {
				c.Off = size + int64(r.Intn(100))
			}
			if r.Chance(1, 15) {
				c.Off = -1 - int64(r.Intn(3))
			}
			if !inContract && r.Chance(1, 6) {
				c.N = 0
			}
			cs = append(cs, c)
		default:
			c := BCall{Kind: "trunc", Off: int64(r.Intn(int(size) + 1))}
			if !inContract && r.Chance(1, 3) {
				c.Off = size + int64(r.Intn(2000))
			}
			if !inContract && r.Chance(1, 10) {
				c.Off = -1
			}
			cs = append(cs, c)
			if c.Off >= 0 && (c.Off <= size || !inContract) {
				size = c.Off
			}
		}
	}
	cs = append(cs, BCall{Kind: "seek", Whence: 1}) // observe the final position
	return cs
}

// RunBCase applies the calls to a real backend and records the replies.
func RunBCase(c *BCase, dir string) error {
	var rw sif.ReadWriter
	var get func() []byte
	if c.Buffer {
		b := sif.NewBuffer(append([]byte(nil), c.Init...))
		rw = b
		get = func() []byte { return append([]byte(nil), b.Bytes()...) }
	} else {
		fp, err := os.CreateTemp(dir, "raw-*")
		if err != nil {
			return err
		}
		defer os.Remove(fp.Name())
		defer fp.Close()
		if _, err := fp.Write(c.Init); err != nil {
			return err
		}
		if _, err := fp.Seek(0, io.SeekStart); err != nil {
			return err
		}
		rw = fp
		get = func() []byte {
			b, err := os.ReadFile(fp.Name())
			if err != nil {
				panic(err)
			}
			return b
		}
	}
	for i := range c.Calls {
		x := &c.Calls[i]
		switch x.Kind {
		case "read":
			p := make([]byte, x.N)
			n, err := rw.ReadAt(p, x.Off)
			x.RData, x.RN, x.RErr = p[:n], int64(n), errClassIO(err)
		case "write":
			n, err := rw.Write(x.Data)
			x.RN, x.RErr = int64(n), errClassIO(err)
		case "seek":
			n, err := rw.Seek(x.Off, x.Whence)
			x.RN, x.RErr = n, errClassIO(err)
			if err != nil {
				x.RN = 0
			}
		default:
			err := rw.Truncate(x.Off)
			x.RErr = errClassIO(err)
		}
	}
	c.Final = get()
	return nil
}

// FirstOutOfContract replays the calls on the documented POSIX semantics (size and position only)
// and returns the index of the first call outside sif.Buffer's contract (Backends.in_contract):
// an empty positioned read, an empty write beyond the end, an invalid whence, an upward
// truncation. len(calls) when every call is inside.
func FirstOutOfContract(initLen int, calls []BCall) int {
	size, pos := int64(initLen), int64(0)
	for i, c := range calls {
		switch c.Kind {
		case "read":
			if c.N <= 0 {
				return i
			}
		case "write":
			if len(c.Data) == 0 {
				if pos > size {
					return i
				}
				continue
			}
			if end := pos + int64(len(c.Data)); end > size {
				size = end
			}
			pos += int64(len(c.Data))
		case "seek":
			if c.Whence < 0 || c.Whence > 2 {
				return i
			}
			base := []int64{0, pos, size}[c.Whence]
			if base+c.Off >= 0 {
				pos = base + c.Off
			}
		default:
			if c.Off > size {
				return i
			}
			if c.Off >= 0 {
				size = c.Off
			}
		}
	}
	return len(calls)
}

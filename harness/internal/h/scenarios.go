package h

import "encoding/binary"

// Directed histories: the shapes random generation reaches only rarely. Each keeps its
// structure and draws sizes, alignments and time options from the case's generator, so that a
// pair of runs of one case (other backend, other wall-clock time) sees the same history.

const NScenarios = 8

func part(r *Rng, pt int32, size int, align int) DInput {
	d := DInput{Type: DataPartition, Content: GenContent(r, size), FailAfter: -1,
		MdSet: true, Md: Meta{Kind: MdPart, Fs: int32(1 + r.Intn(5)), Pt: pt, Arch: Pick(r, ArchNames)}}
	if align != 0 {
		d.AlignSet, d.Align = true, align
	}
	return d
}

func obj(r *Rng, typ int32, size int, group uint32, align int) DInput {
	d := DInput{Type: typ, Content: GenContent(r, size), FailAfter: -1}
	switch group {
	case 0:
		d.GroupOpt = 1
	case 1:
	default:
		d.GroupOpt, d.Group = 2, group
	}
	if align != 0 {
		d.AlignSet, d.Align = true, align
	}
	return d
}

func delID(r *Rng, p GenParams, id uint32, zero, compact bool) Op {
	return Op{Kind: OpDelete, ByID: true, Sel: Selector{Kind: SID, N: int64(id)}, ZeroSet: true, Zero: zero,
		CompactSet: true, Compact: compact, T: genTOpt(r, p)}
}

func delSel(r *Rng, p GenParams, s Selector, zero, compact bool) Op {
	return Op{Kind: OpDelete, Sel: s, ZeroSet: true, Zero: zero, CompactSet: true, Compact: compact, T: genTOpt(r, p)}
}

// defaultUnless: the default time option, unless the family must not depend on the clock.
func defaultUnless(r *Rng, p GenParams) TOpt {
	if p.NoDefaultTime || p.DetMode {
		return genTOpt(r, p)
	}
	return TOpt{Kind: TDefault}
}

func add(r *Rng, p GenParams, d DInput) Op { return Op{Kind: OpAdd, DI: d, T: genTOpt(r, p)} }

// scenario returns the creation objects and the operations of directed history k, and whether
// the image must be created deterministic.
func scenario(k int, r *Rng, p GenParams) (dis []DInput, ops []Op, det bool) {
	small := func() int { return Pick(r, []int{1, 2, 7, 31, 100, 200, 513}) }
	switch k {
	case 0:
		// the primary partition and the calls that must leave it alone
		dis = []DInput{part(r, 2, small(), 0), part(r, 3, small(), 0), part(r, 4, small(), 0), obj(r, DataGeneric, small(), 1, 0)}
		ops = []Op{
			{Kind: OpSetPrim, ID: 2, T: genTOpt(r, p)}, // data partition: refused
			{Kind: OpSetPrim, ID: 3, T: genTOpt(r, p)}, // overlay: refused
			{Kind: OpSetPrim, ID: 1, T: genTOpt(r, p)}, // already primary
			add(r, p, part(r, 1, small(), Pick(r, []int{0, 512, 4096}))),
			{Kind: OpSetPrim, ID: 4, T: genTOpt(r, p)}, // not a partition
			{Kind: OpSetPrim, ID: 9, T: genTOpt(r, p)}, // absent
			add(r, p, part(r, 2, small(), 0)),          // a second primary partition: refused
			{Kind: OpSetPrim, ID: 5, T: defaultUnless(r, p)}, // moves the primary, at the default time
			{Kind: OpSetPrim, ID: 2, T: genTOpt(r, p)},
			{Kind: OpReload},
			delID(r, p, 5, r.Chance(1, 2), r.Chance(1, 2)), // the primary goes: architecture unknown
			{Kind: OpSetPrim, ID: 1, T: genTOpt(r, p)},
		}
	case 1:
		// a freed low slot is reused by an object placed at the end; then several objects go at once
		g := Pick(r, []uint32{2, 3, 5})
		dis = []DInput{obj(r, DataGeneric, small(), g, 0), obj(r, DataGenericJSON, small(), 1, 0),
			obj(r, DataLabels, small(), 1, Pick(r, []int{0, 64})), obj(r, DataEnvVar, small(), 1, 0)}
		// links: to group 1, to object 1 (the probe queries ask for link numbers no field can carry)
		dis[2].Link, dis[2].LinkID = LGroup, 1
		dis[3].Link, dis[3].LinkID = LObject, 1
		ops = []Op{
			delID(r, p, 2, false, false),
			add(r, p, obj(r, DataGeneric, small(), g, 0)), // ID 2 again, after object 4
			add(r, p, obj(r, DataDeffile, small(), 1, 0)),
			delSel(r, p, Selector{Kind: SGroup, N: int64(g)}, true, r.Chance(1, 2)), // objects 1 and 2, far apart
			add(r, p, obj(r, DataGeneric, small(), 1, 0)), // another group takes the lowest ID the emptied group had
			add(r, p, obj(r, DataGeneric, small(), g, 0)), // the emptied group gets a member again, with a higher ID
			delSel(r, p, Selector{Kind: SType, N: DataGeneric}, r.Chance(1, 2), true),
			{Kind: OpReload},
			delSel(r, p, Selector{Kind: SCustom, Custom: CSizeGe, N: 0}, true, true),
		}
	case 2:
		// compaction shrinks the store, then an aligned object leaves a gap beyond the old end
		fill := GenContent(r, Pick(r, []int{600, 3000, 5000}))
		for i := range fill {
			fill[i] |= 0x81
		}
		big := obj(r, DataGeneric, 0, 1, 0)
		big.Content = fill
		dis = []DInput{obj(r, DataGeneric, small(), 1, 0), big}
		ops = []Op{
			delID(r, p, 2, false, true),
			add(r, p, part(r, 1, small(), Pick(r, []int{4096, 512, 65536}))),
			{Kind: OpReload},
			delID(r, p, 2, false, true),
			add(r, p, obj(r, DataGeneric, small(), 1, Pick(r, []int{1024, 4096}))),
			delID(r, p, 1, true, true),
		}
	case 3:
		// empty objects whose aligned offsets lie beyond the end of the store
		dis = []DInput{obj(r, DataGeneric, small(), 1, 0), obj(r, DataGeneric, 0, 1, 4096), obj(r, DataGeneric, 0, 1, 65536)}
		ops = []Op{
			delID(r, p, 3, r.Chance(1, 2), true),
			delID(r, p, 1, r.Chance(1, 2), true),
			add(r, p, obj(r, DataGeneric, small(), 1, 0)),
			delID(r, p, 2, false, true),
			add(r, p, obj(r, DataGeneric, 0, 1, 8192)),
			delID(r, p, 1, true, true),
		}
	case 4:
		// refused set-operations and what the open handle looks like afterwards
		g := obj(r, DataGeneric, small(), 1, 0)
		g.MdSet, g.Md = true, Meta{Kind: MdRaw, How: "raw", Raw: GenContent(r, 10)}
		blob := obj(r, DataOCIBlob, small(), 1, 0)
		dis = []DInput{g, blob, obj(r, DataSBOM, small(), 1, 0)}
		ops = []Op{
			{Kind: OpSetMeta, ID: 1, Md: Meta{Kind: MdRaw, Raw: GenContent(r, 385+r.Intn(40))}, T: genTOpt(r, p)},
			{Kind: OpSetMeta, ID: 1, Md: Meta{Kind: MdErr}, T: genTOpt(r, p)},
			{Kind: OpSetOCI, ID: 2, Alg: "sha256", Hex: string(hexOf(GenContent(r, 200))), T: genTOpt(r, p)},
			{Kind: OpSetOCI, ID: 1, Alg: "sha256", Hex: Sha256Hex(GenContent(r, 8)), T: genTOpt(r, p)},
			{Kind: OpSetMeta, ID: 3, Md: Meta{Kind: MdRaw, Raw: GenContent(r, 384)}, T: genTOpt(r, p)},
			{Kind: OpSetMeta, ID: 3, Md: Meta{Kind: MdRaw, Raw: GenContent(r, 386)}, T: genTOpt(r, p)},
			{Kind: OpReload},
			{Kind: OpSetMeta, ID: 1, Md: Meta{Kind: MdNone}, T: genTOpt(r, p)},
			{Kind: OpSetOCI, ID: 2, Alg: "sha256", Hex: Sha256Hex(GenContent(r, 8)), T: genTOpt(r, p)},
		}
	case 5:
		// a deterministic image, refused calls that carry an explicit time, then default options
		det = true
		dis = []DInput{part(r, 2, small(), 0), obj(r, DataGeneric, small(), 1, 0)}
		long := obj(r, DataGeneric, small(), 1, 0)
		long.NameSet, long.Name = true, "n"+string(make([]byte, 130))
		ops = []Op{
			{Kind: OpAdd, DI: part(r, 2, small(), 0), T: TOpt{Kind: TExplicit, T: 1700000001}}, // refused
			{Kind: OpAdd, DI: obj(r, DataGeneric, small(), 1, 0), T: TOpt{Kind: TDefault}},
			{Kind: OpAdd, DI: long, T: TOpt{Kind: TExplicit, T: 1504657553}}, // refused
			{Kind: OpSetMeta, ID: 2, Md: Meta{Kind: MdRaw, Raw: GenContent(r, 12)}, T: TOpt{Kind: TDefault}},
			{Kind: OpSetPrim, ID: 2, T: TOpt{Kind: TExplicit, T: 946684800}}, // refused: not a partition
			{Kind: OpDelete, ByID: true, Sel: Selector{Kind: SID, N: 9}, T: TOpt{Kind: TExplicit, T: 946684800}},
			{Kind: OpDelete, ByID: true, Sel: Selector{Kind: SID, N: 2}, T: TOpt{Kind: TDefault}},
			{Kind: OpAdd, DI: obj(r, DataOCIBlob, small(), 1, 0), T: TOpt{Kind: TDefault}},
			// an explicit time makes the image non-deterministic, a deterministic operation makes
			// it deterministic again (nil ID, zero times): default options then write zero times
			{Kind: OpSetMeta, ID: 1, Md: Meta{Kind: MdRaw, Raw: GenContent(r, 4)}, T: TOpt{Kind: TExplicit, T: 1700000001}},
			{Kind: OpSetMeta, ID: 1, Md: Meta{Kind: MdRaw, Raw: GenContent(r, 5)}, T: TOpt{Kind: TDeterministic}},
			{Kind: OpSetMeta, ID: 1, Md: Meta{Kind: MdRaw, Raw: GenContent(r, 6)}, T: TOpt{Kind: TDefault}},
			{Kind: OpAdd, DI: obj(r, DataGeneric, small(), 1, 0), T: TOpt{Kind: TDefault}},
		}
	case 7:
		// type-specific metadata of every kind and value, written at creation and by AddObject,
		// read back through the typed accessors (the meta queries) before and after a reload
		sig := func(hh int, fp []byte) DInput {
			d := obj(r, DataSignature, small(), Pick(r, []uint32{0, 1, 2}), 0)
			d.MdSet, d.Md = true, Meta{Kind: MdRaw, How: "signature", SigHash: hh, SigFP: fp, Raw: encSignature(sifHashType(hh), fp)}
			return d
		}
		num := func(t int32, how string, vals ...int32) DInput {
			d := obj(r, t, small(), 1, 0)
			raw := make([]byte, 4*len(vals))
			for i, v := range vals {
				binary.LittleEndian.PutUint32(raw[4*i:], uint32(v))
			}
			d.MdSet, d.Md = true, Meta{Kind: MdRaw, How: how, A: vals[0], B: vals[len(vals)-1], Raw: raw}
			return d
		}
		hashes := []int{5, 6, 7, 16, 17, 3}
		for i, hh := range hashes {
			fp := GenContent(r, 20)
			if i == r.Intn(len(hashes)) {
				fp = nil
			}
			if i%2 == 0 {
				dis = append(dis, sig(hh, fp))
			} else {
				ops = append(ops, add(r, p, sig(hh, fp)))
			}
		}
		dis = append(dis, num(DataCryptoMessage, "crypto", int32(1+r.Intn(2)), int32(Pick(r, []int{0x100, 0x200}))),
			num(DataSBOM, "sbom", int32(1+r.Intn(8))))
		for i := 0; i < 3; i++ {
			d := part(r, int32(Pick(r, []int{1, 3, 4})), small(), 0)
			d.Md.Arch = ArchNames[(len(ArchNames)-1-i+r.Intn(2)*6)%len(ArchNames)]
			if i == 0 {
				d.TimeSet, d.Time = true, 0
				dis = append(dis, d)
			} else {
				ops = append(ops, add(r, p, d))
			}
		}
		e := obj(r, DataGeneric, small(), 1, 0)
		e.TimeSet, e.Time = true, 0
		ops = append(ops, add(r, p, num(DataSBOM, "sbom", int32(1+r.Intn(8)))), add(r, p, e), Op{Kind: OpReload})
	default:
		// one of each kind of object added through AddObject, read back and selected
		dis = []DInput{obj(r, DataOCIBlob, small(), 1, 0)}
		for _, t := range []int32{DataOCIBlob, DataOCIRootIndex, DataSignature, DataCryptoMessage, DataSBOM} {
			d := obj(r, t, small(), Pick(r, []uint32{0, 1, 2}), Pick(r, []int{0, 0, 8}))
			d.Md, d.MdSet = genMeta(r, t, true)
			if d.Md.Kind == MdErr || d.Md.Kind == MdRaw && len(d.Md.Raw) > 384 {
				d.MdSet = false
			}
			ops = append(ops, add(r, p, d))
		}
		// the digest selector is an equality: a proper prefix of a stored digest selects nothing
		pre := Sha256Hex(dis[0].Content)
		ops = append(ops, delSel(r, p, Selector{Kind: SOCIDigest, Alg: "sha256", Hex: pre[:Pick(r, []int{0, 8, 63})]}, false, false),
			Op{Kind: OpReload}, delSel(r, p, Selector{Kind: SType, N: DataOCIBlob}, true, false))
	}
	return dis, ops, det
}

func hexOf(b []byte) []byte {
	const digits = "0123456789abcdef"
	out := make([]byte, 0, 2*len(b))
	for _, x := range b {
		out = append(out, digits[x>>4], digits[x&15])
	}
	return out
}

// probeQueries: questions asked after every step of a directed history.
func probeQueries(r *Rng) []Query {
	return []Query{
		{Kind: "header"},
		{Kind: "many"},
		{Kind: "many", Sels: []Selector{{Kind: SPartType, N: int64(r.Intn(5))}}},
		{Kind: "one", Sels: []Selector{{Kind: SPartType, N: 2}}},
		{Kind: "data", ID: uint32(1 + r.Intn(5))},
		// numbers no stored group or link can carry: nothing matches
		{Kind: "many", Sels: []Selector{{Kind: SGroup, N: int64(Pick(r, []uint32{0xf0000000, 0x10000001, 0xf0000001, 0xffffffff}))}}},
		{Kind: "many", Sels: []Selector{{Kind: Pick(r, []SelKind{SLinkedID, SLinkedGroup}), N: int64(Pick(r, []uint32{0xf0000001, 0x10000001, 0xf0000002}))}}},
	}
}

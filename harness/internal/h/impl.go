package h

import (
	"encoding/hex"
	"bytes"
	"crypto"
	"encoding/binary"
	"errors"
	"fmt"
	"io"
	"os"
	"sort"
	"strings"
	"time"

	v1 "github.com/google/go-containerregistry/pkg/v1"
	"github.com/sylabs/sif/v2/pkg/sif"
)

// Executing cases against the real library and recording what it shows.

var (
	ErrReader  = errors.New("harness: source reader failure")
	ErrMarshal = errors.New("harness: marshal failure")
	ErrCustom  = errors.New("harness: selector failure")
)

// failingReader delivers the first n bytes of data and then fails.
type failingReader struct {
	data []byte
	n    int
	off  int
}

func (r *failingReader) Read(p []byte) (int, error) {
	if r.off >= r.n {
		return 0, ErrReader
	}
	k := copy(p, r.data[r.off:r.n])
	r.off += k
	return k, nil
}

type rawMarshaler []byte

func (m rawMarshaler) MarshalBinary() ([]byte, error) { return []byte(m), nil }

type errMarshaler struct{}

func (errMarshaler) MarshalBinary() ([]byte, error) { return nil, ErrMarshal }

// ErrClass maps an error of the library to the name of the model's err constructor.
func ErrClass(err error) string {
	if err == nil {
		return "Ok"
	}
	switch {
	case errors.Is(err, ErrReader):
		return "EReader"
	case errors.Is(err, ErrMarshal):
		return "EMarshal"
	case errors.Is(err, ErrCustom):
		return "ECustom"
	case errors.Is(err, sif.ErrNoObjects):
		return "ENoObjects"
	case errors.Is(err, sif.ErrObjectNotFound):
		return "ENotFound"
	case errors.Is(err, sif.ErrMultipleObjectsFound):
		return "EMultiple"
	case errors.Is(err, sif.ErrInvalidObjectID):
		return "EInvalidObjectID"
	case errors.Is(err, sif.ErrInvalidGroupID):
		return "EInvalidGroupID"
	}
	msg := err.Error()
	for _, p := range []struct{ sub, cls string }{
		{"insufficient descriptor capacity", "ECapacity"},
		{"already contains a primary partition", "EPrimaryExists"},
		{"name value too large", "ENameTooLarge"},
		{"extra value too large", "EExtraTooLarge"},
		{"not a partition", "ENotPartition"},
		{"not a system partition", "ENotSystem"},
		{"unexpected data type", "EUnexpectedType"},
		{"integer overflow when calculating alignment", "EAlignOverflow"},
		{"object ID would overflow", "EIDOverflow"},
		{"truncation out of range", "ETruncRange"},
		{"launch script too large", "ELaunchLen"},
		{"descriptor capacity not supported", "ECapNotSupported"},
		{"invalid SIF magic", "EInvalidMagic"},
		{"incompatible SIF version", "EBadVersion"},
		{"invalid descriptor count", "EBadCount"},
		{"invalid data object size", "EBadSize"},
		{"negative offset", "ENegOffset"},
	} {
		if strings.Contains(msg, p.sub) {
			return p.cls
		}
	}
	if errors.Is(err, io.EOF) || errors.Is(err, io.ErrUnexpectedEOF) {
		switch {
		case strings.Contains(msg, "reading global header"):
			return "EShortHeader"
		case strings.Contains(msg, "reading descriptors"):
			return "EShortTable"
		}
		return "EShortData"
	}
	return "EIo"
}

// Backend is the storage an image lives on.
type Backend interface {
	sif.ReadWriter
	Bytes() []byte
	Kind() string
	Close()
}

type bufBackend struct{ *sif.Buffer }

func (b bufBackend) Bytes() []byte { return bytes.Clone(b.Buffer.Bytes()) }
func (b bufBackend) Kind() string  { return "buf" }
func (b bufBackend) Close()        {}

type fileBackend struct {
	*os.File
}

func (f fileBackend) Bytes() []byte {
	b, err := os.ReadFile(f.Name())
	if err != nil {
		panic(err)
	}
	return b
}
func (f fileBackend) Kind() string { return "file" }
func (f fileBackend) Close()       { f.File.Close(); os.Remove(f.Name()) }

// NewBackend returns empty storage of the given kind, or storage holding init.
func NewBackend(kind, dir string, init []byte) Backend {
	if kind == "buf" {
		return bufBackend{sif.NewBuffer(bytes.Clone(init))}
	}
	fp, err := os.CreateTemp(dir, "img-*.sif")
	if err != nil {
		panic(err)
	}
	if len(init) > 0 {
		if _, err := fp.Write(init); err != nil {
			panic(err)
		}
		if _, err := fp.Seek(0, io.SeekStart); err != nil {
			panic(err)
		}
	}
	return fileBackend{fp}
}

func cryptoHash(n int) crypto.Hash { return crypto.Hash(n) }

// BuildDI turns a DInput into a library DescriptorInput.
func BuildDI(d DInput) (sif.DescriptorInput, error) {
	var r io.Reader = bytes.NewReader(d.Content)
	if d.FailAfter >= 0 {
		r = &failingReader{data: d.Content, n: d.FailAfter}
	}
	var opts []sif.DescriptorInputOpt
	switch d.GroupOpt {
	case 1:
		opts = append(opts, sif.OptNoGroup())
	case 2:
		opts = append(opts, sif.OptGroupID(d.Group))
	}
	switch d.Link {
	case LObject:
		opts = append(opts, sif.OptLinkedID(d.LinkID))
	case LGroup:
		opts = append(opts, sif.OptLinkedGroupID(d.LinkID))
	}
	if d.AlignSet {
		opts = append(opts, sif.OptObjectAlignment(d.Align))
	}
	if d.NameSet {
		opts = append(opts, sif.OptObjectName(d.Name))
	}
	if d.TimeSet {
		opts = append(opts, sif.OptObjectTime(time.Unix(d.Time, 0)))
	}
	if d.MdSet {
		switch d.Md.Kind {
		case MdPart:
			opts = append(opts, sif.OptPartitionMetadata(sif.FSType(d.Md.Fs), sif.PartType(d.Md.Pt), d.Md.Arch))
		case MdRaw:
			switch d.Md.How {
			case "signature":
				opts = append(opts, sif.OptSignatureMetadata(cryptoHash(d.Md.SigHash), d.Md.SigFP))
			case "crypto":
				opts = append(opts, sif.OptCryptoMessageMetadata(sif.FormatType(d.Md.A), sif.MessageType(d.Md.B)))
			case "sbom":
				opts = append(opts, sif.OptSBOMMetadata(sif.SBOMFormat(d.Md.A)))
			default:
				opts = append(opts, sif.OptMetadata(rawMarshaler(d.Md.Raw)))
			}
		case MdErr:
			opts = append(opts, sif.OptMetadata(errMarshaler{}))
		case MdNone:
			opts = append(opts, sif.OptMetadata(nil))
		}
	}
	return sif.NewDescriptorInput(sif.DataType(d.Type), r, opts...)
}

// BuildSelector turns a Selector into a library selector func.
func BuildSelector(s Selector) sif.DescriptorSelectorFunc {
	switch s.Kind {
	case SType:
		return sif.WithDataType(sif.DataType(s.N))
	case SID:
		return sif.WithID(uint32(s.N))
	case SNoGroup:
		return sif.WithNoGroup()
	case SGroup:
		return sif.WithGroupID(uint32(s.N))
	case SLinkedID:
		return sif.WithLinkedID(uint32(s.N))
	case SLinkedGroup:
		return sif.WithLinkedGroupID(uint32(s.N))
	case SPartType:
		return sif.WithPartitionType(sif.PartType(s.N))
	case SOCIDigest:
		return sif.WithOCIBlobDigest(v1.Hash{Algorithm: s.Alg, Hex: s.Hex})
	}
	switch s.Custom {
	case CFalse:
		return func(sif.Descriptor) (bool, error) { return false, nil }
	case CSizeGe:
		return func(d sif.Descriptor) (bool, error) { return d.Size() >= s.N, nil }
	case CNameNonEmpty:
		return func(d sif.Descriptor) (bool, error) { return d.Name() != "", nil }
	case CErrOnID:
		return func(d sif.Descriptor) (bool, error) {
			if int64(d.ID()) == s.N {
				return false, ErrCustom
			}
			return true, nil
		}
	}
	return func(sif.Descriptor) (bool, error) { return true, nil }
}

// Handle is an open image on a backend.
type Handle struct {
	F  *sif.FileImage
	BE Backend
}

// Observe records the state of the handle and its storage.
func Observe(h *Handle, be Backend, res string) Obs {
	o := Obs{Res: res, Store: be.Bytes()}
	if bb, ok := be.(bufBackend); ok {
		o.HasPos = true
		o.Pos = sif.VerifBufferPos(bb.Buffer)
	}
	if h != nil && h.F != nil {
		hb, rds, mids := sif.VerifRaw(h.F)
		o.HasMem = true
		o.Hdr = hb
		for _, rd := range rds {
			o.Rds = append(o.Rds, rd...)
		}
		for k, v := range mids {
			o.MinIDs = append(o.MinIDs, [2]uint32{k, v})
		}
		sort.Slice(o.MinIDs, func(i, j int) bool { return o.MinIDs[i][0] < o.MinIDs[j][0] })
		// does the handle agree with the file regions?
		o.MemIsFile = false
		if len(o.Store) >= 128 && bytes.Equal(o.Store[:128], hb) {
			off := int64(binary.LittleEndian.Uint64(hb[96:104]))
			size := int64(binary.LittleEndian.Uint64(hb[104:112]))
			size = int64(len(o.Rds)) // the table proper: 585 bytes per descriptor
			if off >= 0 && off <= int64(len(o.Store)) && off+size <= int64(len(o.Store)) &&
				bytes.Equal(o.Store[off:off+size], o.Rds) {
				o.MemIsFile = true
			}
		}
	}
	return o
}

func addOpts(t TOpt) []sif.AddOpt {
	switch t.Kind {
	case TDeterministic:
		return []sif.AddOpt{sif.OptAddDeterministic()}
	case TExplicit:
		return []sif.AddOpt{sif.OptAddWithTime(time.Unix(t.T, 0))}
	}
	return nil
}

func setOpts(t TOpt) []sif.SetOpt {
	switch t.Kind {
	case TDeterministic:
		return []sif.SetOpt{sif.OptSetDeterministic()}
	case TExplicit:
		return []sif.SetOpt{sif.OptSetWithTime(time.Unix(t.T, 0))}
	}
	return nil
}

func delOpts(o Op) []sif.DeleteOpt {
	var opts []sif.DeleteOpt
	if o.ZeroSet {
		opts = append(opts, sif.OptDeleteZero(o.Zero))
	}
	if o.CompactSet {
		opts = append(opts, sif.OptDeleteCompact(o.Compact))
	}
	switch o.T.Kind {
	case TDeterministic:
		opts = append(opts, sif.OptDeleteDeterministic())
	case TExplicit:
		opts = append(opts, sif.OptDeleteWithTime(time.Unix(o.T.T, 0)))
	}
	return opts
}

// ClockNote records a clock bracket check: the value the library stored must lie in [Lo,Hi].
type ClockNote struct {
	Lo, Used, Hi int64
	OK           bool
}

// Apply executes op on h, fills in op.Now, and returns the result class. A reload replaces h.F.
func Apply(h *Handle, op *Op) (string, *ClockNote, error) {
	var err error
	var note *ClockNote
	t0 := time.Now().Unix()
	switch op.Kind {
	case OpAdd:
		var di sif.DescriptorInput
		di, err = BuildDI(op.DI)
		if err != nil {
			return "", nil, fmt.Errorf("descriptor input: %w", err)
		}
		err = h.F.AddObject(di, addOpts(op.T)...)
	case OpDelete:
		if op.ByID {
			err = h.F.DeleteObject(uint32(op.Sel.N), delOpts(*op)...)
		} else {
			err = h.F.DeleteObjects(BuildSelector(op.Sel), delOpts(*op)...)
		}
	case OpSetPrim:
		err = h.F.SetPrimPart(op.ID, setOpts(op.T)...)
	case OpSetMeta:
		var md interface{ MarshalBinary() ([]byte, error) }
		switch op.Md.Kind {
		case MdRaw:
			md = rawMarshaler(op.Md.Raw)
		case MdErr:
			md = errMarshaler{}
		}
		if md == nil {
			err = h.F.SetMetadata(op.ID, nil, setOpts(op.T)...)
		} else {
			err = h.F.SetMetadata(op.ID, md, setOpts(op.T)...)
		}
	case OpSetOCI:
		err = h.F.SetOCIBlobDigest(op.ID, v1.Hash{Algorithm: op.Alg, Hex: op.Hex}, setOpts(op.T)...)
	case OpReload:
		// keep storage, drop the handle, load anew
		var f2 *sif.FileImage
		f2, err = sif.LoadContainer(h.BE, sif.OptLoadWithCloseOnUnload(false))
		if err == nil {
			h.F = f2
		}
		return ErrClass(err), nil, nil
	}
	t1 := time.Now().Unix()
	op.Now = t0
	if err == nil && op.T.Kind == TDefault {
		// The library read the clock itself; the value it stored (if it stored one) becomes the
		// model's clock input, provided it lies in the bracket taken around the call.
		after := h.F.ModifiedAt().Unix()
		if after >= t0 && after <= t1 {
			op.Now = after
			note = &ClockNote{Lo: t0, Used: after, Hi: t1, OK: true}
		}
	}
	return ErrClass(err), note, nil
}

// CreateImage creates an image on be according to co, passing the options in co.Order, and
// records the clock reading and random ID the library used (inputs of the model).
func CreateImage(be Backend, co *COpts) (*Handle, string, *ClockNote, error) {
	if len(co.Order) == 0 {
		co.Order = []string{"det", "launch", "id", "time", "cap", "dis"}
	}
	var opts []sif.CreateOpt
	for _, k := range co.Order {
		switch k {
		case "det":
			if co.IDKind == 2 || co.TimeKind == 2 {
				opts = append(opts, sif.OptCreateDeterministic())
			}
		case "launch":
			if co.LaunchSet {
				opts = append(opts, sif.OptCreateWithLaunchScript(co.Launch))
			}
		case "id":
			if co.IDKind == 1 {
				opts = append(opts, sif.OptCreateWithID(uuidString(co.ID)))
			}
		case "time":
			if co.TimeKind == 1 {
				opts = append(opts, sif.OptCreateWithTime(time.Unix(co.Time, 0)))
			}
		case "cap":
			if co.CapSet {
				opts = append(opts, sif.OptCreateWithDescriptorCapacity(co.Cap))
			}
		case "dis":
			var dis []sif.DescriptorInput
			for _, d := range co.DIs {
				di, err := BuildDI(d)
				if err != nil {
					return nil, "", nil, fmt.Errorf("descriptor input: %w", err)
				}
				dis = append(dis, di)
			}
			if len(dis) > 0 {
				opts = append(opts, sif.OptCreateWithDescriptors(dis...))
			}
		}
	}
	opts = append(opts, sif.OptCreateWithCloseOnUnload(false))

	t0 := time.Now().Unix()
	f, err := sif.CreateContainer(be, opts...)
	t1 := time.Now().Unix()
	co.ObsNow = t0
	if err != nil {
		return nil, ErrClass(err), nil, nil
	}
	// The library drew the random ID and read the clock itself: whatever it stored that is not
	// explained by the options becomes the model's input, after a plausibility check.
	var note *ClockNote
	hb, _, _ := sif.VerifRaw(f)
	idFromOpts, timeFromOpts := false, false
	for _, k := range co.Order {
		switch k {
		case "det":
			if co.IDKind == 2 || co.TimeKind == 2 {
				idFromOpts, timeFromOpts = true, true
			}
		case "id":
			if co.IDKind == 1 {
				idFromOpts = true
			}
		case "time":
			if co.TimeKind == 1 {
				timeFromOpts = true
			}
		}
	}
	copy(co.EffID[:], hb[48:64])
	co.EffTime = int64(binary.LittleEndian.Uint64(hb[64:72]))
	if !idFromOpts {
		copy(co.ObsRnd[:], hb[48:64])
	}
	if !timeFromOpts {
		used := co.EffTime
		if used >= t0 && used <= t1 {
			co.ObsNow = used
		}
		note = &ClockNote{Lo: t0, Used: used, Hi: t1, OK: used >= t0 && used <= t1}
	}
	return &Handle{F: f, BE: be}, "Ok", note, nil
}

func uuidString(id [16]byte) string {
	return fmt.Sprintf("%x-%x-%x-%x-%x", id[0:4], id[4:6], id[6:8], id[8:10], id[10:16])
}

// Ask runs a query against the handle and records the answer.
func Ask(h *Handle, q *Query) {
	var fns []sif.DescriptorSelectorFunc
	for _, s := range q.Sels {
		fns = append(fns, BuildSelector(s))
	}
	q.Err, q.IDs, q.Bytes = "", nil, nil
	q.Name, q.Arch, q.FP, q.Digest, q.Nums = nil, nil, nil, nil, nil
	q.Launch, q.Version, q.HID = nil, nil, nil
	switch q.Kind {
	case "header":
		f := h.F
		q.Launch, q.Version, q.Arch = []byte(f.LaunchScript()), []byte(f.Version()), []byte(f.PrimaryArch())
		if id, err := hex.DecodeString(strings.ReplaceAll(f.ID(), "-", "")); err == nil {
			q.HID = id
		}
		q.Nums = []int64{f.CreatedAt().Unix(), f.ModifiedAt().Unix(), f.DescriptorsFree(), f.DescriptorsTotal(),
			f.DescriptorsOffset(), f.DescriptorsSize(), f.DataOffset(), f.DataSize()}
	case "meta":
		d, err := h.F.GetDescriptor(sif.WithID(q.ID))
		if err != nil {
			q.Err = ErrClass(err)
			return
		}
		AskMeta(d, q)
	case "many":
		ds, err := h.F.GetDescriptors(fns...)
		if err != nil {
			q.Err = ErrClass(err)
			return
		}
		for _, d := range ds {
			q.IDs = append(q.IDs, [2]uint32{d.ID(), sif.VerifRelativeID(d)})
		}
	case "one":
		d, err := h.F.GetDescriptor(fns...)
		if err != nil {
			q.Err = ErrClass(err)
			return
		}
		q.IDs = append(q.IDs, [2]uint32{d.ID(), sif.VerifRelativeID(d)})
	default:
		d, err := h.F.GetDescriptor(sif.WithID(q.ID))
		if err != nil {
			q.Err = ErrClass(err)
			return
		}
		b, err := d.GetData()
		if err != nil {
			q.Err = ErrClass(err)
			return
		}
		q.Bytes = b
	}
}

// metaErr maps the error of a typed accessor to the codes of coq/Meta.v merr_code:
// 0 none, 1 unexpected data type, 2 hash algorithm unsupported, 3 anything else (digest text).
func metaErr(err error) int64 {
	switch {
	case err == nil:
		return 0
	case strings.Contains(err.Error(), "unexpected data type"):
		return 1
	case strings.Contains(err.Error(), "hash algorithm unsupported"):
		return 2
	}
	return 3
}

// AskMeta records what every typed accessor of d returns (the QMeta answer).
func AskMeta(d sif.Descriptor, q *Query) {
	b2i := func(b bool) int64 {
		if b {
			return 1
		}
		return 0
	}
	q.Name = []byte(d.Name())
	lid, isg := d.LinkedID()
	q.Nums = []int64{int64(d.DataType()), int64(d.GroupID()), int64(lid), b2i(isg), d.Offset(), d.Size(),
		d.CreatedAt().Unix(), d.ModifiedAt().Unix()}
	fs, pt, arch, err := d.PartitionMetadata()
	q.Nums = append(q.Nums, metaErr(err), int64(fs), int64(pt))
	if err == nil {
		q.Arch = []byte(arch)
	}
	ht, fp, err := d.SignatureMetadata()
	if err != nil {
		q.Nums = append(q.Nums, metaErr(err), 0, 0)
	} else {
		q.Nums = append(q.Nums, 0, int64(ht), b2i(fp != nil))
		q.FP = fp
	}
	ft, mt, err := d.CryptoMessageMetadata()
	q.Nums = append(q.Nums, metaErr(err), int64(ft), int64(mt))
	sf, err := d.SBOMMetadata()
	q.Nums = append(q.Nums, metaErr(err), int64(sf))
	dg, err := d.OCIBlobDigest()
	q.Nums = append(q.Nums, metaErr(err))
	if err == nil {
		q.Digest = []byte(dg.String())
	}
}

// RunCase executes c against the library, filling in observations and clock readings.
func RunCase(c *Case, dir string) ([]ClockNote, error) {
	var notes []ClockNote
	be := NewBackend(c.Backend, dir, c.LoadBytes)
	defer be.Close()

	var h *Handle
	if c.Create != nil {
		hh, res, note, err := CreateImage(be, c.Create)
		if err != nil {
			return nil, err
		}
		if note != nil {
			notes = append(notes, *note)
		}
		h = hh
		c.InitObs = Observe(h, be, res)
		c.HasHandle = h != nil
	} else {
		f, err := sif.LoadContainer(be, sif.OptLoadWithCloseOnUnload(false))
		if err == nil {
			h = &Handle{F: f, BE: be}
		}
		c.InitObs = Observe(h, be, ErrClass(err))
		c.HasHandle = h != nil
	}
	if h == nil {
		c.Steps = nil
		c.InitQueries = nil
		return notes, nil
	}
	for j := range c.InitQueries {
		Ask(h, &c.InitQueries[j])
	}
	for i := range c.Steps {
		res, note, err := Apply(h, &c.Steps[i].Op)
		if err != nil {
			return nil, fmt.Errorf("case %d step %d: %w", c.ID, i, err)
		}
		if note != nil {
			notes = append(notes, *note)
		}
		c.Steps[i].Obs = Observe(h, be, res)
		for j := range c.Steps[i].Queries {
			Ask(h, &c.Steps[i].Queries[j])
		}
	}
	return notes, nil
}

package main

import (
	"bytes"
	"fmt"
	"io"
	"os"
	"path/filepath"
	"runtime"
	"sort"
	"strings"
	"sync"

	"github.com/ProtonMail/go-crypto/openpgp"
	"github.com/sylabs/sif/v2/pkg/integrity"
	"github.com/sylabs/sif/v2/pkg/sif"
	"verifharness/internal/h"
)

// C18: many goroutines use the read-only facilities of one loaded image at once; every call
// must return what it returns when run alone. Built with -race, the detector's reports go to
// <out>/race.* (GORACE log_path), which run.py turns into findings.

type reader struct {
	name string
	run  func(f *sif.FileImage) string
}

func descString(d sif.Descriptor) string {
	return fmt.Sprintf("%d/%d/%d/%v/%d/%d/%s/%v", d.ID(), d.GroupID(), d.DataType(), d.CreatedAt().Unix(), d.Offset(), d.Size(), d.Name(), d.ModifiedAt().Unix())
}

// sharedCallbacks: what the callback of a Verifier shared by all goroutines may report, learnt
// from a run alone (each report is a pure function of the signature it is about).
type sharedCallbacks struct {
	mu      sync.Mutex
	learn   bool
	allowed map[string]bool
	bad     []string
}

func verifierOpts(k *h.Keys) []integrity.VerifierOpt {
	return []integrity.VerifierOpt{integrity.OptVerifyWithKeyRing(keyRing(k)),
		integrity.OptVerifyWithVerifier(k.Verifiers["ed25519"], k.Verifiers["rsa"], k.Verifiers["ecdsa"])}
}

func readersFor(k *h.Keys, img []byte, f0 *sif.FileImage, sc *sharedCallbacks) []reader {
	si, _ := h.DecodeImage(img)
	// one Verifier per handle, used by every goroutine: without a callback, and with one
	// whose reports are checked against those of a run alone
	// (f0 == nil: no shared verifier, nothing touches the handle before the readers do)
	var sv, sv2 *integrity.Verifier
	svErr, sv2Err := error(nil), error(nil)
	if f0 == nil {
		svErr, sv2Err = fmt.Errorf("not built"), fmt.Errorf("not built")
	} else {
		sv, svErr = integrity.NewVerifier(f0, verifierOpts(k)...)
	}
	mk2 := func() (*integrity.Verifier, error) {
		if f0 == nil {
			return nil, fmt.Errorf("not built")
		}
		return integrity.NewVerifier(f0, append(verifierOpts(k), integrity.OptVerifyCallback(func(r integrity.VerifyResult) bool {
			var ks []string
			for _, key := range r.Keys() {
				ks = append(ks, fmt.Sprintf("%T", key))
			}
			fp := ""
			if e := r.Entity(); e != nil {
				fp = fmt.Sprintf("%x", e.PrimaryKey.Fingerprint)
			}
			line := fmt.Sprintf("sig %d verified %d keys %v entity %s err=%v", r.Signature().ID(), len(r.Verified()), ks, fp, r.Error())
			sc.mu.Lock()
			if sc.learn {
				sc.allowed[line] = true
			} else if !sc.allowed[line] {
				sc.bad = append(sc.bad, line)
			}
			sc.mu.Unlock()
			return false
		}))...)
	}
	sv2, sv2Err = mk2()
	var ids []uint32
	groups := map[uint32]bool{}
	for _, d := range si.Descs {
		if d.Used {
			ids = append(ids, d.ID)
			if d.GroupID() != 0 {
				groups[d.GroupID()] = true
			}
		}
	}
	rs := []reader{
		{"all descriptors", func(f *sif.FileImage) string {
			ds, err := f.GetDescriptors()
			var sb strings.Builder
			for _, d := range ds {
				sb.WriteString(descString(d) + ";")
			}
			return fmt.Sprintf("%s err=%v", sb.String(), err)
		}},
		{"header accessors", func(f *sif.FileImage) string {
			return fmt.Sprintf("%s|%s|%s|%s|%d|%d|%d|%d|%d|%d|%v|%v", f.LaunchScript(), f.Version(), f.PrimaryArch(), f.ID(),
				f.DescriptorsFree(), f.DescriptorsTotal(), f.DescriptorsOffset(), f.DescriptorsSize(), f.DataOffset(), f.DataSize(),
				f.CreatedAt().Unix(), f.ModifiedAt().Unix())
		}},
		{"signature descriptors", func(f *sif.FileImage) string {
			ds, err := f.GetDescriptors(sif.WithDataType(sif.DataSignature))
			return fmt.Sprintf("%d err=%v", len(ds), err)
		}},
		{"header integrity stream", func(f *sif.FileImage) string {
			b, err := io.ReadAll(f.GetHeaderIntegrityReader())
			return fmt.Sprintf("%x err=%v", b, err)
		}},
		{"signer listings and verification", func(f *sif.FileImage) string {
			var sb strings.Builder
			v, err := integrity.NewVerifier(f,
				integrity.OptVerifyWithKeyRing(keyRing(k)), integrity.OptVerifyWithVerifier(k.Verifiers["ed25519"], k.Verifiers["rsa"], k.Verifiers["ecdsa"]),
				integrity.OptVerifyCallback(func(r integrity.VerifyResult) bool {
					fmt.Fprintf(&sb, "[sig %d verified %d keys %d err=%v]", r.Signature().ID(), len(r.Verified()), len(r.Keys()), r.Error())
					return false
				}))
			if err != nil {
				return "new: " + err.Error()
			}
			a, e1 := v.AnySignedBy()
			b, e2 := v.AllSignedBy()
			e3 := v.Verify()
			return fmt.Sprintf("%x %v %x %v %v %s", a, e1, b, e2, e3, sb.String())
		}},
	}
	rs = append(rs,
		reader{"one verifier shared by all callers", func(f *sif.FileImage) string {
			if svErr != nil {
				return "new: " + svErr.Error()
			}
			e := sv.Verify()
			a, e1 := sv.AnySignedBy()
			b, e2 := sv.AllSignedBy()
			return fmt.Sprintf("%v %x %v %x %v", e, a, e1, b, e2)
		}},
		reader{"one verifier with a callback shared by all callers", func(f *sif.FileImage) string {
			if sv2Err != nil {
				return "new: " + sv2Err.Error()
			}
			e := sv2.Verify()
			sc.mu.Lock()
			bad := fmt.Sprint(sc.bad)
			sc.mu.Unlock()
			return fmt.Sprintf("%v unexpected reports: %s", e, bad)
		}},
		reader{"partition type queries", func(f *sif.FileImage) string {
			var sb strings.Builder
			for _, pt := range []sif.PartType{0, sif.PartSystem, sif.PartPrimSys, sif.PartData, sif.PartOverlay} {
				ds, err := f.GetDescriptors(sif.WithPartitionType(pt))
				d, err1 := f.GetDescriptor(sif.WithPartitionType(pt))
				fmt.Fprintf(&sb, "%d:%d,%v,%d,%v;", pt, len(ds), err, d.ID(), err1)
			}
			return sb.String()
		}},
		reader{"link and group selectors", func(f *sif.FileImage) string {
			var sb strings.Builder
			for _, n := range []uint32{1, 2, 3} {
				a, e1 := f.GetDescriptors(sif.WithLinkedID(n))
				b, e2 := f.GetDescriptors(sif.WithLinkedGroupID(n))
				c, e3 := f.GetDescriptors(sif.WithGroupID(n), sif.WithDataType(sif.DataGeneric))
				fmt.Fprintf(&sb, "%d:%d,%v,%d,%v,%d,%v;", n, len(a), e1, len(b), e2, len(c), e3)
			}
			u, e4 := f.GetDescriptors(sif.WithNoGroup())
			fmt.Fprintf(&sb, "nogroup:%d,%v", len(u), e4)
			return sb.String()
		}},
	)
	for _, id := range ids {
		id := id
		rs = append(rs,
			reader{fmt.Sprintf("type-specific metadata of object %d", id), func(f *sif.FileImage) string {
				d, err := f.GetDescriptor(sif.WithID(id))
				if err != nil {
					return err.Error()
				}
				fs, pt, arch, e1 := d.PartitionMetadata()
				ht, fp, e2 := d.SignatureMetadata()
				ft, mt, e3 := d.CryptoMessageMetadata()
				sf, e4 := d.SBOMMetadata()
				dg, e5 := d.OCIBlobDigest()
				var md rawBytes
				e6 := d.GetMetadata(&md)
				return fmt.Sprintf("%v %v %v %v|%v %x %v|%v %v %v|%v %v|%v %v|%x %v", fs, pt, arch, e1, ht, fp, e2, ft, mt, e3, sf, e4, dg, e5, []byte(md), e6)
			}},
			reader{fmt.Sprintf("content of object %d", id), func(f *sif.FileImage) string {
				d, err := f.GetDescriptor(sif.WithID(id))
				if err != nil {
					return err.Error()
				}
				b, err := d.GetData()
				c, err2 := io.ReadAll(d.GetReader())
				return fmt.Sprintf("%x %v %v %v", h.Sha256Hex(b), err, bytes.Equal(b, c), err2)
			}},
			reader{fmt.Sprintf("descriptor and integrity stream of object %d", id), func(f *sif.FileImage) string {
				d, err := f.GetDescriptor(sif.WithID(id))
				if err != nil {
					return err.Error()
				}
				b, err := io.ReadAll(d.GetIntegrityReader())
				return fmt.Sprintf("%s %x %v", descString(d), b, err)
			}})
	}
	var gs []uint32
	for g := range groups {
		gs = append(gs, g)
	}
	sort.Slice(gs, func(i, j int) bool { return gs[i] < gs[j] })
	for _, g := range gs {
		g := g
		rs = append(rs, reader{fmt.Sprintf("members of group %d", g), func(f *sif.FileImage) string {
			ds, err := f.GetDescriptors(sif.WithGroupID(g))
			var sb strings.Builder
			for _, d := range ds {
				sb.WriteString(descString(d) + ";")
			}
			return fmt.Sprintf("%s err=%v", sb.String(), err)
		}})
	}
	return rs
}

// guarded runs a reader and turns a panic inside the library into a result string, so that a
// concurrent call that crashes is reported as a call that did not answer as it does alone.
func guarded(rd reader, f *sif.FileImage) (res string) {
	defer func() {
		if e := recover(); e != nil {
			res = fmt.Sprintf("PANIC: %v", e)
		}
	}()
	return rd.run(f)
}

// rawBytes receives the metadata field as it is stored.
type rawBytes []byte

func (m *rawBytes) UnmarshalBinary(b []byte) error { *m = bytes.Clone(b); return nil }

func keyRing(k *h.Keys) openpgp.EntityList { return openpgp.EntityList(k.Entities) }

func runConcurrent(seed uint64, n int, out, tmp string) summary {
	s := newSummary("concurrent", seed)
	k := h.LoadKeys("/repo")
	root := h.NewRng(seed)
	for i := 0; i < n; i++ {
		r := root.Fork()
		b, info, f0 := h.GenGroupedImageH(r)
		if len(info.Groups) == 0 {
			continue
		}
		// a couple of signatures so that verification has something to do
		_ = h.SignOnHandle(k, f0, h.SignConfig{Scheme: "dsse", DSSEKeys: []string{"ed25519"}})
		if i%2 == 0 {
			_ = h.SignOnHandle(k, f0, h.SignConfig{Scheme: "pgp", Entity: 0})
		}
		img := bytes.Clone(b.Bytes())
		for _, backend := range []string{"buf", "file"} {
			var rw sif.ReadWriter
			if backend == "buf" {
				rw = sif.NewBuffer(bytes.Clone(img))
			} else {
				p := filepath.Join(tmp, fmt.Sprintf("c%d.sif", i))
				if err := os.WriteFile(p, img, 0o644); err != nil {
					panic(err)
				}
				fh, err := os.OpenFile(p, os.O_RDWR, 0)
				if err != nil {
					panic(err)
				}
				defer fh.Close()
				rw = fh
			}
			f, err := sif.LoadContainer(rw, sif.OptLoadWithCloseOnUnload(false))
			if err != nil {
				panic(err)
			}
			sc := &sharedCallbacks{learn: true, allowed: map[string]bool{}}
			rs := readersFor(k, img, f, sc)
			alone := make([]string, len(rs))
			for j, rd := range rs {
				alone[j] = rd.run(f)
			}
			sc.learn = false
			for _, procs := range []int{1, 2, 4, 16} {
				// a freshly loaded handle: its first uses are the concurrent ones
				f, err := sif.LoadContainer(rw, sif.OptLoadWithCloseOnUnload(false))
				if err != nil {
					panic(err)
				}
				rs := readersFor(k, img, f, sc) // the shared verifiers belong to this handle
				old := runtime.GOMAXPROCS(procs)
				var wg sync.WaitGroup
				var mu sync.Mutex
				for g := 0; g < 12; g++ {
					wg.Add(1)
					gr := r.Fork()
					go func() {
						defer wg.Done()
						for c := 0; c < 20; c++ {
							j := gr.Intn(len(rs))
							got := guarded(rs[j], f)
							if got != alone[j] {
								mu.Lock()
								s.Oracle = append(s.Oracle, h.Finding{Property: "C18", Case: i,
									What:  fmt.Sprintf("%s returned a different result when run concurrently (GOMAXPROCS=%d, %s backend): %.160q, alone %.160q", rs[j].name, procs, backend, got, alone[j]),
									Input: info.Desc})
								mu.Unlock()
							}
						}
					}()
				}
				wg.Wait()
				runtime.GOMAXPROCS(old)
				s.Steps += 12 * 20
			}
			s.Cases++
			s.Backends[backend]++
			s.OracleRuns["concurrent-equals-alone"] += 4 * 12 * 20
		}
		// a handle with a past: it has just deleted the lowest object of a group and is read by
		// many goroutines at once before any sequential call (whatever the handle caches is then
		// filled in concurrently)
		si, _ := h.DecodeImage(img)
		var victim uint32
		members := map[uint32]int{}
		for _, d := range si.Descs {
			if d.Used && d.Type != h.DataSignature && d.GroupID() != 0 {
				members[d.GroupID()]++
			}
		}
		for _, d := range si.Descs {
			if d.Used && d.Type != h.DataSignature && d.GroupID() != 0 && members[d.GroupID()] >= 2 && victim == 0 {
				victim = d.ID // the lowest ID of its group: descriptors are in ID order here
			}
		}
		if victim != 0 {
			past := func() (*sif.FileImage, []byte) {
				bb := sif.NewBuffer(bytes.Clone(img))
				f, err := sif.LoadContainer(bb, sif.OptLoadWithCloseOnUnload(false))
				if err != nil {
					panic(err)
				}
				if err := f.DeleteObject(victim, sif.OptDeleteDeterministic()); err != nil {
					panic(err)
				}
				return f, bytes.Clone(bb.Bytes())
			}
			fA, imgA := past()
			sc := &sharedCallbacks{learn: true, allowed: map[string]bool{}}
			rsA := readersFor(k, imgA, nil, sc)
			alone := make([]string, len(rsA))
			for j, rd := range rsA {
				alone[j] = rd.run(fA)
			}
			sc.learn = false
			for _, procs := range []int{2, 16} {
				f, _ := past()
				rs := readersFor(k, imgA, nil, sc)
				old := runtime.GOMAXPROCS(procs)
				var wg sync.WaitGroup
				var mu sync.Mutex
				for g := 0; g < 12; g++ {
					wg.Add(1)
					gr := r.Fork()
					go func() {
						defer wg.Done()
						for c := 0; c < 10; c++ {
							j := gr.Intn(len(rs))
							if got := guarded(rs[j], f); got != alone[j] {
								mu.Lock()
								s.Oracle = append(s.Oracle, h.Finding{Property: "C18", Case: i,
									What:  fmt.Sprintf("%s returned a different result when run concurrently on a handle that had just deleted object %d (GOMAXPROCS=%d): %.160q, alone %.160q", rs[j].name, victim, procs, got, alone[j]),
									Input: info.Desc})
								mu.Unlock()
							}
						}
					}()
				}
				wg.Wait()
				runtime.GOMAXPROCS(old)
				s.Steps += 12 * 10
			}
			s.OracleRuns["concurrent-equals-alone-after-a-delete"] += 2 * 12 * 10
		}
	}
	s.Distinct = s.Cases
	s.Samples = []string{fmt.Sprintf("%d images x 2 backends x GOMAXPROCS 1/2/4/16 x 12 goroutines x 20 calls of mixed readers on one handle", n)}
	return s
}

// drive generates cases, runs them against the library built from /repo's working tree, and
// writes Coq case files plus a JSON summary for run.py.
package main

import (
	"bytes"
	"encoding/json"
	"flag"
	"fmt"
	"os"
	"path/filepath"
	"strconv"
	"strings"
	"time"

	"github.com/sylabs/sif/v2/pkg/sif"
	"verifharness/internal/h"
)

type summary struct {
	Family     string         `json:"family"`
	Seed       uint64         `json:"seed"`
	Cases      int            `json:"cases"`
	Steps      int            `json:"steps"`
	Queries    int            `json:"queries"`
	Files      []string       `json:"files"`
	OpKinds    map[string]int `json:"op_kinds"`
	Results    map[string]int `json:"results"`
	Backends   map[string]int `json:"backends"`
	Caps       map[string]int `json:"capacities"`
	ClockNotes int            `json:"clock_brackets"`
	ClockBad   int            `json:"clock_out_of_bracket"`
	Distinct   int            `json:"distinct_nontrivial"`
	Samples    []string       `json:"samples"`
	Oracle     []h.Finding    `json:"oracle_findings"`
	OracleRuns map[string]int `json:"oracle_checks"`
	Extra      map[string]any `json:"extra,omitempty"`
}

func main() {
	if len(os.Args) < 2 {
		fmt.Fprintln(os.Stderr, "usage: drive <family> [flags]")
		os.Exit(2)
	}
	fam := os.Args[1]
	if fam == "hostile-child" {
		from, _ := strconv.Atoi(os.Args[3])
		to, _ := strconv.Atoi(os.Args[4])
		hostileChild(os.Args[2], from, to)
		return
	}
	if fam == "witness" {
		fails, detail := h.Witness(os.Args[2])
		fmt.Printf("%v\t%s\n", fails, detail)
		return
	}
	fs := flag.NewFlagSet(fam, flag.ExitOnError)
	seed := fs.Uint64("seed", 1, "PRNG seed")
	n := fs.Int("n", 100, "number of cases")
	shards := fs.Int("shards", 8, "number of Coq case files")
	out := fs.String("out", "", "output directory")
	backend := fs.String("backend", "both", "buf, file or both")
	maxcap := fs.Int("maxcap", 16, "maximum descriptor capacity")
	minops := fs.Int("minops", 3, "minimum history length")
	maxops := fs.Int("maxops", 14, "maximum history length")
	bigevery := fs.Int("bigevery", 0, "one object in this many may be large")
	queries := fs.Int("queries", 2, "up to this many read-only queries after each step")
	thorough := fs.Bool("thorough", false, "crash family: every byte of table writes")
	corpus := fs.Int("corpus", 0, "load family: include shipped images up to this size in bytes")
	mode := fs.String("mode", "tamper", "verify family: tamper, coverage, ...")
	_ = fs.Parse(os.Args[2:])
	if *out == "" {
		fmt.Fprintln(os.Stderr, "-out required")
		os.Exit(2)
	}
	if err := os.MkdirAll(*out, 0o755); err != nil {
		panic(err)
	}
	tmp, err := os.MkdirTemp(*out, "files-")
	if err != nil {
		panic(err)
	}
	defer os.RemoveAll(tmp)

	var s summary
	switch fam {
	case "hist":
		s = runHist(*seed, *n, *shards, *out, tmp, *backend, h.GenParams{
			MaxCap: *maxcap, MinOps: *minops, MaxOps: *maxops, BigEvery: *bigevery, Queries: *queries,
		})
	case "crash":
		s = runCrash(*seed, *n, *shards, *out, tmp, *thorough, h.GenParams{
			MaxCap: *maxcap, MinOps: *minops, MaxOps: *maxops, BigEvery: *bigevery, Queries: 0, Backend: "buf",
		})
	case "determ":
		s = runDeterm(*seed, *n, *shards, *out, tmp, h.GenParams{
			MaxCap: *maxcap, MinOps: *minops, MaxOps: *maxops, BigEvery: *bigevery, Queries: 0, DetMode: true,
		})
	case "siftool":
		s = runSiftool(*seed, *n, *shards, *out, tmp, *maxops, *thorough)
	case "hostile":
		s = runHostile(*seed, *n, *out, *thorough)
	case "concurrent":
		s = runConcurrent(*seed, *n, *out, tmp)
	case "verify":
		s = runVerify(*seed, *n, *shards, *out, *mode, *thorough)
	case "backend":
		s = runBackend(*seed, *n, *shards, *out, tmp)
	case "lockstep":
		s = runLockstep(*seed, *n, *shards, *out, tmp, h.GenParams{
			MaxCap: *maxcap, MinOps: *minops, MaxOps: *maxops, BigEvery: *bigevery, Queries: 0,
		})
	case "load":
		s = runLoad(*seed, *n, *shards, *out, tmp, *backend, *maxcap, *maxops, *queries, *corpus)
	default:
		fmt.Fprintln(os.Stderr, "unknown family", fam)
		os.Exit(2)
	}
	b, _ := json.MarshalIndent(s, "", " ")
	if err := os.WriteFile(filepath.Join(*out, "summary.json"), b, 0o644); err != nil {
		panic(err)
	}
}

func qres(q h.Query) string {
	if q.Err != "" {
		return q.Err
	}
	if q.Kind == "meta" && len(q.Nums) == 20 {
		// which typed accessor answered, and how the others refused
		for _, c := range []struct {
			i    int
			name string
		}{{8, "partition"}, {11, "signature"}, {14, "crypto"}, {17, "sbom"}, {19, "oci-digest"}} {
			switch q.Nums[c.i] {
			case 0:
				return "Ok/" + c.name
			case 2:
				return "Ok/" + c.name + "-hash-unsupported"
			case 3:
				return "Ok/" + c.name + "-malformed"
			}
		}
		return "Ok/untyped"
	}
	if q.Kind == "data" || q.Kind == "meta" || q.Kind == "header" {
		return "Ok"
	}
	switch len(q.IDs) {
	case 0:
		return "empty"
	case 1:
		return "one"
	}
	return "several"
}

func runHist(seed uint64, n, shards int, out, tmp, backend string, p h.GenParams) summary {
	s := summary{
		Family: "hist", Seed: seed, OpKinds: map[string]int{}, Results: map[string]int{},
		Backends: map[string]int{}, Caps: map[string]int{}, OracleRuns: map[string]int{},
	}
	root := h.NewRng(seed)
	var cases []h.Case
	distinct := map[string]bool{}
	for i := 0; i < n; i++ {
		r := root.Fork()
		pp := p
		switch backend {
		case "both":
			pp.Backend = []string{"buf", "file"}[i%2]
		default:
			pp.Backend = backend
		}
		pp.Scenario = i
		c := h.GenHistory(r, i+1, pp)
		notes, err := h.RunCase(&c, tmp)
		if err != nil {
			fmt.Fprintln(os.Stderr, "harness error:", err)
			os.Exit(3)
		}
		for _, nt := range notes {
			s.ClockNotes++
			if !nt.OK {
				s.ClockBad++
			}
		}
		s.Backends[c.Backend]++
		s.Caps[fmt.Sprint(c.Create.EffCap())]++
		s.Results["create:"+c.InitObs.Res]++
		sig := fmt.Sprintf("%d|%s", c.Create.EffCap(), c.InitObs.Res)
		nontrivial := false
		for _, q := range c.InitQueries {
			s.Results["query-"+q.Kind+":"+qres(q)]++
		}
		for _, st := range c.Steps {
			for _, q := range st.Queries {
				s.Results["query-"+q.Kind+":"+qres(q)]++
				s.Queries++
			}
			s.Steps++
			s.OpKinds[st.Op.KindName()]++
			s.Results[st.Op.KindName()+":"+st.Obs.Res]++
			sig += "|" + st.Op.KindName() + ":" + st.Obs.Res
			if st.Op.Kind != h.OpReload && st.Obs.Res == "Ok" {
				nontrivial = true
			}
		}
		if nontrivial {
			distinct[sig] = true
		}
		// property oracle on the implementation (not a proof; see DESIGN.md 3.3)
		for _, f := range h.OracleHistory(&c, tmp, s.OracleRuns) {
			s.Oracle = append(s.Oracle, f)
		}
		if len(s.Samples) < 3 {
			var ops []string
			for _, st := range c.Steps {
				ops = append(ops, st.Op.KindName()+"->"+st.Obs.Res)
			}
			s.Samples = append(s.Samples, fmt.Sprintf("case %d backend=%s cap=%d create->%s ops=%v", c.ID, c.Backend, c.Create.EffCap(), c.InitObs.Res, ops))
		}
		cases = append(cases, c)
	}
	s.Cases = len(cases)
	s.Distinct = len(distinct)
	if shards < 1 {
		shards = 1
	}
	for k := 0; k < shards; k++ {
		var part []h.Case
		for i := k; i < len(cases); i += shards {
			part = append(part, cases[i])
		}
		if len(part) == 0 {
			continue
		}
		name := fmt.Sprintf("Cases_hist_%d.v", k)
		if err := os.WriteFile(filepath.Join(out, name), []byte(h.CasesFile(part)), 0o644); err != nil {
			panic(err)
		}
		s.Files = append(s.Files, name)
	}
	alignGrid(&s, out)
	return s
}

func tally(s *summary, c *h.Case, distinct map[string]bool) {
	s.Backends[c.Backend]++
	init := "load"
	if c.Create != nil {
		init = "create"
		s.Caps[fmt.Sprint(c.Create.EffCap())]++
	}
	s.Results[init+":"+c.InitObs.Res]++
	sig := init + "|" + c.InitObs.Res
	nontrivial := c.HasHandle
	for _, q := range c.InitQueries {
		s.Results["query-"+q.Kind+":"+qres(q)]++
		s.Queries++
	}
	for _, st := range c.Steps {
		for _, q := range st.Queries {
			s.Results["query-"+q.Kind+":"+qres(q)]++
			s.Queries++
		}
		s.Steps++
		s.OpKinds[st.Op.KindName()]++
		s.Results[st.Op.KindName()+":"+st.Obs.Res]++
		sig += "|" + st.Op.KindName() + ":" + st.Obs.Res
	}
	if nontrivial {
		distinct[fmt.Sprintf("%s|%d", sig, len(c.LoadBytes))] = true
	}
}

func writeShards(s *summary, cases []h.Case, shards int, out, prefix string) {
	if shards < 1 {
		shards = 1
	}
	for k := 0; k < shards; k++ {
		var part []h.Case
		for i := k; i < len(cases); i += shards {
			part = append(part, cases[i])
		}
		if len(part) == 0 {
			continue
		}
		name := fmt.Sprintf("Cases_%s_%d.v", prefix, k)
		if err := os.WriteFile(filepath.Join(out, name), []byte(h.CasesFile(part)), 0o644); err != nil {
			panic(err)
		}
		s.Files = append(s.Files, name)
	}
}

// alignGrid (C03): the alignment arithmetic on a boundary grid, including values next to the
// int64 limit, library against model (mismatch code 15) and against the definition.
func alignGrid(s *summary, out string) {
	const max = int64(^uint64(0) >> 1)
	offs := []int64{0, 1, 2, 3, 7, 8, 511, 512, 513, 4095, 4096, 4097, 65535, 65536, 1<<31 - 1, 1 << 31, 1<<32 + 5,
		1<<62 - 1, 1 << 62, max - 4097, max - 4096, max - 4095, max - 513, max - 512, max - 511, max - 9, max - 8, max - 7, max - 2, max - 1, max}
	aligns := []int{-4096, -1, 0, 1, 2, 3, 7, 8, 512, 513, 4095, 4096, 4097, 65536, 1<<31 - 1, 1 << 31, 1<<62 + 1, int(max)}
	var rows []string
	for _, o := range offs {
		for _, a := range aligns {
			got, err := sif.VerifNextAligned(o, a)
			s.OracleRuns["alignment-grid"]++
			// the definition: the least multiple of a that is >= o, an error when it exceeds the limit
			want, overflow := o, false
			if a > 0 && o%int64(a) != 0 {
				rem := int64(a) - o%int64(a)
				if max-o < rem {
					overflow = true
				} else {
					want = o + rem
				}
			}
			if overflow != (err != nil) || !overflow && got != want {
				s.Oracle = append(s.Oracle, h.Finding{Property: "C03", Case: 0,
					What: fmt.Sprintf("nextAligned(%d, %d) = %d, %v; the least multiple at or after the offset is %d (overflow=%v)", o, a, got, err, want, overflow)})
			}
			r := "None"
			if err == nil {
				r = fmt.Sprintf("(Some %s)", h.CoqZ(got))
			}
			rows = append(rows, fmt.Sprintf("(%s, %s, %s)", h.CoqZ(o), h.CoqZ(int64(a)), r))
		}
	}
	src := "From Coq Require Import List ZArith.\nFrom Sif Require Import Bytes Store Format Image.\nImport ListNotations.\nLocal Open Scope Z_scope.\n" +
		"Definition agrid : list (Z * Z * option Z) := [\n  " + strings.Join(rows, ";\n  ") + "].\n" +
		"Definition M := Eval vm_compute in flat_map (fun c => match c with (o, a, r) =>\n" +
		"  match next_aligned o a, r with\n  | Some x, Some y => if x =? y then [] else [(o, a, 15)]\n  | None, None => []\n  | _, _ => [(o, a, 15)]\n  end end) agrid.\nPrint M.\n"
	if err := os.WriteFile(filepath.Join(out, "Cases_align_0.v"), []byte(src), 0o644); err != nil {
		panic(err)
	}
	s.Files = append(s.Files, "Cases_align_0.v")
}

func runLoad(seed uint64, n, shards int, out, tmp, backend string, maxcap, maxops, queries, corpus int) summary {
	s := summary{
		Family: "load", Seed: seed, OpKinds: map[string]int{}, Results: map[string]int{},
		Backends: map[string]int{}, Caps: map[string]int{}, OracleRuns: map[string]int{},
		Extra: map[string]any{},
	}
	root := h.NewRng(seed)
	var cases []h.Case
	distinct := map[string]bool{}
	id := 0
	run := func(c h.Case) {
		if _, err := h.RunCase(&c, tmp); err != nil {
			fmt.Fprintln(os.Stderr, "harness error:", err)
			os.Exit(3)
		}
		tally(&s, &c, distinct)
		s.Oracle = append(s.Oracle, h.OracleHistory(&c, tmp, s.OracleRuns)...)
		if len(s.Samples) < 3 {
			s.Samples = append(s.Samples, fmt.Sprintf("case %d backend=%s load %d bytes -> %s, %d ops", c.ID, c.Backend, len(c.LoadBytes), c.InitObs.Res, len(c.Steps)))
		}
		cases = append(cases, c)
	}
	be := func(i int) string {
		if backend == "both" {
			return []string{"buf", "file"}[i%2]
		}
		return backend
	}
	nm := 0
	for i := 0; i < n; i++ {
		r := root.Fork()
		id++
		c := h.GenForeignCase(r, id, be(i), h.ForeignParams{MaxCap: maxcap, Ops: maxops, Queries: queries})
		run(c)
		if i%4 == 0 { // header mutants and truncations of every fourth image
			for _, m := range h.HeaderMutants(r, c.LoadBytes) {
				id++
				nm++
				mc := h.Case{ID: id, Backend: be(id), LoadBytes: m, Hostile: true}
				mc.InitQueries = []h.Query{{Kind: "many"}, {Kind: "data", ID: 1}}
				run(mc)
			}
		}
	}
	s.Extra["header_mutants"] = nm
	// crafted: images whose object IDs do not follow the slots (IDs rewritten in images the
	// library made), modified on one handle: add, delete the object of the first slot, add, add
	for v := 0; v < 4; v++ {
		r := root.Fork()
		var b sif.Buffer
		mk := func(content string, opts ...sif.DescriptorInputOpt) sif.DescriptorInput {
			di, err := sif.NewDescriptorInput(sif.DataGeneric, strings.NewReader(content), opts...)
			if err != nil {
				panic(err)
			}
			return di
		}
		dis := []sif.DescriptorInput{mk("first"), mk(string(h.GenContent(r, 20+r.Intn(60))), sif.OptGroupID(2))}
		if v%2 == 1 {
			dis = append(dis, mk("third", sif.OptNoGroup()))
		}
		if _, err := sif.CreateContainer(&b, sif.OptCreateDeterministic(), sif.OptCreateWithDescriptorCapacity(int64(len(dis)+3)),
			sif.OptCreateWithDescriptors(dis...), sif.OptCreateWithCloseOnUnload(false)); err != nil {
			panic(err)
		}
		img := append([]byte(nil), b.Bytes()...)
		si, _ := h.DecodeImage(img)
		newIDs := [][]uint32{{7, 2}, {5, 9, 2}, {3, 1}, {2, 7, 4}}[v]
		for j, nid := range newIDs {
			if j < len(dis) {
				o := int(si.H.DescOff) + j*h.DescSize + 5
				img[o], img[o+1], img[o+2], img[o+3] = byte(nid), 0, 0, 0
			}
		}
		small := func() h.DInput {
			return h.DInput{Type: h.DataGeneric, Content: h.GenContent(r, 1+r.Intn(40)), FailAfter: -1, GroupOpt: r.Intn(2)}
		}
		det := h.TOpt{Kind: h.TDeterministic}
		id++
		c := h.Case{ID: id, Backend: be(v), LoadBytes: img, ForeignIDs: true}
		c.InitQueries = []h.Query{{Kind: "many"}}
		for _, op := range []h.Op{
			{Kind: h.OpAdd, DI: small(), T: det},
			{Kind: h.OpDelete, ByID: true, Sel: h.Selector{Kind: h.SID, N: int64(newIDs[0])}, T: det},
			{Kind: h.OpAdd, DI: small(), T: det},
			{Kind: h.OpAdd, DI: small(), T: det},
			{Kind: h.OpAdd, DI: small(), T: det},
			{Kind: h.OpReload},
			{Kind: h.OpAdd, DI: small(), T: det},
		} {
			c.Steps = append(c.Steps, h.Step{Op: op, Queries: []h.Query{{Kind: "many"}}})
		}
		run(c)
	}
	if corpus > 0 {
		names, imgs := h.CorpusImages("/repo")
		k := 0
		for i, img := range imgs {
			if len(img) > corpus {
				continue
			}
			id++
			k++
			c := h.Case{ID: id, Backend: be(i), LoadBytes: img}
			c.InitQueries = []h.Query{{Kind: "many"}, {Kind: "many", Sels: []h.Selector{{Kind: h.SType, N: h.DataSignature}}}, {Kind: "data", ID: 1}}
			c.Tags = []string{names[i]}
			run(c)
		}
		s.Extra["corpus_images"] = k
	}
	s.Cases = len(cases)
	s.Distinct = len(distinct)
	writeShards(&s, cases, shards, out, "load")
	return s
}

func runBackend(seed uint64, n, shards int, out, tmp string) summary {
	s := summary{
		Family: "backend", Seed: seed, OpKinds: map[string]int{}, Results: map[string]int{},
		Backends: map[string]int{}, Caps: map[string]int{}, OracleRuns: map[string]int{},
		Extra: map[string]any{},
	}
	root := h.NewRng(seed)
	var cases []h.BCase
	distinct := map[string]bool{}
	for i := 0; i < n; i++ {
		r := root.Fork()
		inContract := i%3 != 2
		init := h.GenContent(r, h.Pick(r, []int{0, 0, 10, 500}))
		calls := h.GenBCalls(r, 6+r.Intn(20), inContract)
		var pair [2]h.BCase
		for k, buf := range []bool{true, false} {
			c := h.BCase{ID: 2*i + k + 1, Buffer: buf, Init: init, Calls: append([]h.BCall(nil), calls...)}
			if err := h.RunBCase(&c, tmp); err != nil {
				fmt.Fprintln(os.Stderr, "harness error:", err)
				os.Exit(3)
			}
			pair[k] = c
			cases = append(cases, c)
			s.Backends[map[bool]string{true: "buf", false: "file"}[buf]]++
			sig := fmt.Sprint(buf)
			for _, x := range c.Calls {
				s.Steps++
				s.OpKinds[x.Kind]++
				s.Results[fmt.Sprintf("%s:err%d", x.Kind, x.RErr)]++
				sig += fmt.Sprintf("|%s%d", x.Kind, x.RErr)
			}
			distinct[sig] = true
		}
		// C14 oracle: as long as every call so far is inside the contract (judged on the exact
		// size and position, not on the generator's guess) both backends must answer alike
		{
			s.OracleRuns["bisim"]++
			a, b := pair[0], pair[1]
			bad := ""
			lim := h.FirstOutOfContract(len(init), calls)
			if lim < len(calls) {
				s.OracleRuns["sequences-leaving-the-contract"]++
			}
			for j := range a.Calls {
				if j >= lim {
					break
				}
				x, y := a.Calls[j], b.Calls[j]
				if string(x.RData) != string(y.RData) || x.RN != y.RN || x.RErr != y.RErr {
					bad = fmt.Sprintf("call %d (%s): buffer replied (%d bytes, %d, err %d), file (%d bytes, %d, err %d)", j, x.Kind, len(x.RData), x.RN, x.RErr, len(y.RData), y.RN, y.RErr)
					break
				}
			}
			if bad == "" && lim == len(calls) && string(a.Final) != string(b.Final) {
				bad = fmt.Sprintf("final contents differ: buffer %d bytes, file %d bytes", len(a.Final), len(b.Final))
			}
			if bad != "" {
				var calls []string
				for _, x := range a.Calls {
					calls = append(calls, x.Coq())
				}
				s.Oracle = append(s.Oracle, h.Finding{Property: "C14", Case: a.ID, What: bad, Input: fmt.Sprintf("init %d bytes; calls %v", len(init), calls)})
			}
		}
		if len(s.Samples) < 3 {
			var ks []string
			for _, x := range calls {
				ks = append(ks, x.Kind)
			}
			s.Samples = append(s.Samples, fmt.Sprintf("case %d in_contract=%v calls=%v", 2*i+1, inContract, ks))
		}
	}
	s.Cases = len(cases)
	s.Distinct = len(distinct)
	if shards < 1 {
		shards = 1
	}
	for k := 0; k < shards; k++ {
		var part []h.BCase
		for i := k; i < len(cases); i += shards {
			part = append(part, cases[i])
		}
		if len(part) == 0 {
			continue
		}
		name := fmt.Sprintf("Cases_backend_%d.v", k)
		if err := os.WriteFile(filepath.Join(out, name), []byte(h.BCasesFile(part)), 0o644); err != nil {
			panic(err)
		}
		s.Files = append(s.Files, name)
	}
	return s
}

// runLockstep runs every history on sif.Buffer and on a file and compares them step by step.
func runLockstep(seed uint64, n, shards int, out, tmp string, p h.GenParams) summary {
	s := summary{
		Family: "lockstep", Seed: seed, OpKinds: map[string]int{}, Results: map[string]int{},
		Backends: map[string]int{}, Caps: map[string]int{}, OracleRuns: map[string]int{},
	}
	root := h.NewRng(seed)
	var cases []h.Case
	distinct := map[string]bool{}
	for i := 0; i < n; i++ {
		seedi := root.U64()
		var pair [2]h.Case
		for k, be := range []string{"buf", "file"} {
			pp := p
			pp.Backend = be
			pp.NoDefaultTime = true // the two runs must not depend on the wall clock
			pp.Scenario = i
			c := h.GenHistory(h.NewRng(seedi), 2*i+k+1, pp)
			if _, err := h.RunCase(&c, tmp); err != nil {
				fmt.Fprintln(os.Stderr, "harness error:", err)
				os.Exit(3)
			}
			tally(&s, &c, distinct)
			pair[k] = c
			cases = append(cases, c)
		}
		s.OracleRuns["lockstep"]++
		a, b := pair[0], pair[1]
		class := ""
		if a.Create != nil && a.Create.EffCap() == 0 {
			class = "F4b"
		}
		report := func(step int, what string) {
			s.Oracle = append(s.Oracle, h.Finding{Property: "C14", Case: a.ID, Step: step, Class: class, What: what, Input: a.Describe(step)})
		}
		if a.InitObs.Res != b.InitObs.Res {
			report(0, fmt.Sprintf("creation: buffer %s, file %s", a.InitObs.Res, b.InitObs.Res))
		} else if string(a.InitObs.Store) != string(b.InitObs.Store) {
			report(0, fmt.Sprintf("after creation the contents differ: buffer %d bytes, file %d bytes", len(a.InitObs.Store), len(b.InitObs.Store)))
		}
		for j := range a.Steps {
			if j >= len(b.Steps) {
				break
			}
			x, y := a.Steps[j].Obs, b.Steps[j].Obs
			if x.Res != y.Res {
				report(j+1, fmt.Sprintf("%s: buffer %s, file %s", a.Steps[j].Op.KindName(), x.Res, y.Res))
				break
			}
			if string(x.Store) != string(y.Store) {
				report(j+1, fmt.Sprintf("after %s the contents differ: buffer %d bytes, file %d bytes, first difference at %d", a.Steps[j].Op.KindName(), len(x.Store), len(y.Store), firstDiffBytes(x.Store, y.Store)))
				break
			}
			// the read-only questions asked after the step are answered alike
			for qi := range a.Steps[j].Queries {
				if qi < len(b.Steps[j].Queries) {
					qa, qb := a.Steps[j].Queries[qi], b.Steps[j].Queries[qi]
					if qa.Err != qb.Err || fmt.Sprint(qa.IDs) != fmt.Sprint(qb.IDs) || string(qa.Bytes) != string(qb.Bytes) {
						report(j+1, fmt.Sprintf("query %s after %s: buffer answers (%q, %v, %d bytes), file (%q, %v, %d bytes)", qa.Coq(), a.Steps[j].Op.KindName(), qa.Err, qa.IDs, len(qa.Bytes), qb.Err, qb.IDs, len(qb.Bytes)))
						break
					}
				}
			}
		}
		if len(s.Samples) < 3 {
			s.Samples = append(s.Samples, fmt.Sprintf("case %d/%d cap=%d ops=%d", a.ID, b.ID, a.Create.EffCap(), len(a.Steps)))
		}
	}
	s.Cases = len(cases)
	s.Distinct = len(distinct)
	writeShards(&s, cases, shards, out, "lockstep")
	return s
}

func firstDiffBytes(a, b []byte) int {
	n := len(a)
	if len(b) < n {
		n = len(b)
	}
	for i := 0; i < n; i++ {
		if a[i] != b[i] {
			return i
		}
	}
	return n
}

// runDeterm: C12. Every history is executed twice, the second time after the wall clock has
// crossed a second boundary, on sif.Buffer and on a file; as long as the history is clock-free
// (options fix the time, or the image is deterministic) all four runs must be byte-identical.
func runDeterm(seed uint64, n, shards int, out, tmp string, p h.GenParams) summary {
	s := summary{
		Family: "determ", Seed: seed, OpKinds: map[string]int{}, Results: map[string]int{},
		Backends: map[string]int{}, Caps: map[string]int{}, OracleRuns: map[string]int{},
		Extra: map[string]any{},
	}
	root := h.NewRng(seed)
	seeds := make([]uint64, n)
	for i := range seeds {
		seeds[i] = root.U64()
	}
	runAll := func(pass int) [][2]h.Case {
		var outp [][2]h.Case
		for i, sd := range seeds {
			var pair [2]h.Case
			for k, be := range []string{"buf", "file"} {
				pp := p
				pp.Backend = be
				pp.Scenario = i
				c := h.GenHistory(h.NewRng(sd), 4*i+2*pass+k+1, pp)
				if _, err := h.RunCase(&c, tmp); err != nil {
					fmt.Fprintln(os.Stderr, "harness error:", err)
					os.Exit(3)
				}
				pair[k] = c
			}
			outp = append(outp, pair)
		}
		return outp
	}
	first := runAll(0)
	// cross a wall-clock second boundary
	t0 := time.Now().Unix()
	for time.Now().Unix() < t0+1 {
		time.Sleep(20 * time.Millisecond)
	}
	time.Sleep(50 * time.Millisecond)
	second := runAll(1)
	s.Extra["second_boundary_crossed"] = time.Now().Unix() > t0

	var cases []h.Case
	distinct := map[string]bool{}
	freeSteps, zeroChecked := 0, 0
	for i := range first {
		a, b := first[i][0], first[i][1]
		a2, b2 := second[i][0], second[i][1]
		for _, c := range []*h.Case{&a, &b, &a2, &b2} {
			tally(&s, c, distinct)
		}
		cases = append(cases, a, b2) // the model sees one run of each pass/backend
		s.OracleRuns["determ"]++
		report := func(step int, what string) {
			s.Oracle = append(s.Oracle, h.Finding{Property: "C12", Case: a.ID, Step: step, What: what, Input: a.Describe(step)})
		}
		idKnown, _, timeKnown, _ := a.Create.Expected()
		if !(idKnown && timeKnown) || !a.HasHandle {
			continue
		}
		same := func(step int, x, y h.Obs, who string) bool {
			if x.Res != y.Res {
				report(step, fmt.Sprintf("%s: results differ: %s / %s", who, x.Res, y.Res))
				return false
			}
			if string(x.Store) != string(y.Store) {
				report(step, fmt.Sprintf("%s: bytes differ at offset %d (lengths %d / %d)", who, firstDiffBytes(x.Store, y.Store), len(x.Store), len(y.Store)))
				return false
			}
			return true
		}
		capZero := a.Create.EffCap() == 0
		ok := same(0, a.InitObs, a2.InitObs, "same history at another wall-clock time") &&
			(capZero || same(0, a.InitObs, b.InitObs, "memory and file backend"))
		noExplicit := a.Create.IDKind == 2 || a.Create.TimeKind == 2
		for _, k := range a.Create.Order {
			if k == "time" && a.Create.TimeKind == 1 || k == "id" && a.Create.IDKind == 1 {
				noExplicit = false
			}
		}
		for j := 0; ok && j < len(a.Steps); j++ {
			pre := a.InitObs
			if j > 0 {
				pre = a.Steps[j-1].Obs
			}
			img, err := h.DecodeImage(pre.Store)
			if err != nil {
				break
			}
			det := img.H.ID == [16]byte{} && img.H.Ctime == h.ZeroTime && img.H.Mtime == h.ZeroTime
			op := a.Steps[j].Op
			if op.Kind != h.OpReload && op.T.Kind == h.TDefault && !det {
				break // from here on the history legitimately depends on the clock
			}
			freeSteps++
			ok = same(j+1, a.Steps[j].Obs, a2.Steps[j].Obs, "same history at another wall-clock time") &&
				(capZero || same(j+1, a.Steps[j].Obs, b.Steps[j].Obs, "memory and file backend")) &&
				(capZero || same(j+1, a.Steps[j].Obs, b2.Steps[j].Obs, "file backend at another wall-clock time"))
			// zero fields: nothing explicit so far => nil ID and zero times everywhere
			if op.T.Kind == h.TExplicit || op.Kind == h.OpAdd && op.DI.TimeSet && op.DI.Time != h.ZeroTime {
				noExplicit = false
			}
			for _, d := range a.Create.DIs {
				if d.TimeSet && d.Time != h.ZeroTime {
					noExplicit = false
				}
			}
			if ok && noExplicit {
				zeroChecked++
				post, err := h.DecodeImage(a.Steps[j].Obs.Store)
				if err == nil {
					if post.H.ID != [16]byte{} || post.H.Ctime != h.ZeroTime || post.H.Mtime != h.ZeroTime {
						report(j+1, fmt.Sprintf("deterministic image has ID %x, times %d/%d", post.H.ID, post.H.Ctime, post.H.Mtime))
					}
					for _, d := range post.Descs {
						if d.Used && (d.Ctime != h.ZeroTime || d.Mtime != h.ZeroTime) {
							report(j+1, fmt.Sprintf("object %d of a deterministic image has times %d/%d", d.ID, d.Ctime, d.Mtime))
						}
					}
				}
			}
		}
		if len(s.Samples) < 3 {
			s.Samples = append(s.Samples, fmt.Sprintf("case %d cap=%d ops=%d twice on buf and file", a.ID, a.Create.EffCap(), len(a.Steps)))
		}
	}
	s.Extra["clock_free_steps_compared"] = freeSteps
	s.Extra["zero_field_checks"] = zeroChecked
	s.Cases = len(cases)
	s.Distinct = len(distinct)
	writeShards(&s, cases, shards, out, "determ")
	return s
}

// runCrash: C09. For pre-states reached by random histories, one more operation is recorded call
// by call; every crash point (between calls, torn writes) is reconstructed and loaded, and every
// call is made to fail once.
func runCrash(seed uint64, n, shards int, out, tmp string, thorough bool, p h.GenParams) summary {
	s := summary{
		Family: "crash", Seed: seed, OpKinds: map[string]int{}, Results: map[string]int{},
		Backends: map[string]int{}, Caps: map[string]int{}, OracleRuns: map[string]int{},
		Extra: map[string]any{},
	}
	root := h.NewRng(seed)
	var cases []h.Case
	distinct := map[string]bool{}
	var st h.CrashStats
	id := 0
	for i := 0; i < n; i++ {
		r := root.Fork()
		c := h.GenHistory(r, 0, p)
		if len(c.Steps) == 0 {
			continue
		}
		if _, err := h.RunCase(&c, tmp); err != nil {
			fmt.Fprintln(os.Stderr, "harness error:", err)
			os.Exit(3)
		}
		if !c.HasHandle {
			continue
		}
		// every step of the history is a (pre-state, operation) pair
		pre := c.InitObs.Store
		for j, stp := range c.Steps {
			if stp.Op.Kind != h.OpReload && (j%2 == i%2 || len(c.Steps) < 4) {
				id++
				calls, res, fs := h.OracleCrash(id, pre, stp.Op, thorough, &st)
				s.Oracle = append(s.Oracle, fs...)
				s.OracleRuns["crash-pairs"]++
				if calls != nil {
					op := stp.Op
					mc := h.Case{ID: id, Backend: "buf", LoadBytes: pre, Steps: []h.Step{{Op: op, Trace: calls}}}
					if _, err := h.RunCase(&mc, tmp); err != nil {
						fmt.Fprintln(os.Stderr, "harness error:", err)
						os.Exit(3)
					}
					if len(mc.Steps) == 1 && mc.Steps[0].Obs.Res != res {
						s.Oracle = append(s.Oracle, h.Finding{Property: "C09", Case: id, What: "result differs between recorded and plain run: " + res + " / " + mc.Steps[0].Obs.Res})
					}
					tally(&s, &mc, distinct)
					cases = append(cases, mc)
					if len(s.Samples) < 3 {
						s.Samples = append(s.Samples, fmt.Sprintf("case %d: %s on a %d-byte image -> %s, %d storage calls", id, op.KindName(), len(pre), res, len(calls)))
					}
				}
			}
			pre = stp.Obs.Store
		}
	}
	// crafted pre-states the random histories rarely reach: compaction that has to extend the
	// file (the last surviving object is empty and aligned beyond the written bytes), deletion of
	// the last object, of every object, of a zero-sized object
	for v := 0; v < 6; v++ {
		r := root.Fork()
		var b sif.Buffer
		mk := func(content string, opts ...sif.DescriptorInputOpt) sif.DescriptorInput {
			di, err := sif.NewDescriptorInput(sif.DataGeneric, strings.NewReader(content), opts...)
			if err != nil {
				panic(err)
			}
			return di
		}
		dis := []sif.DescriptorInput{mk("first object"), mk(string(h.GenContent(r, 30+r.Intn(200))), sif.OptObjectAlignment(8))}
		switch v % 3 {
		case 0:
			dis = append(dis, mk("", sif.OptObjectAlignment(4096)))
		case 1:
			dis = append(dis, mk("", sif.OptObjectAlignment(512)), mk("", sif.OptObjectAlignment(4096)))
		case 2:
			dis = append(dis, mk("tail"))
		}
		if _, err := sif.CreateContainer(&b, sif.OptCreateDeterministic(), sif.OptCreateWithDescriptorCapacity(6),
			sif.OptCreateWithDescriptors(dis...), sif.OptCreateWithCloseOnUnload(false)); err != nil {
			panic(err)
		}
		pre := append([]byte(nil), b.Bytes()...)
		for _, target := range []uint32{1, 2} {
			for _, zero := range []bool{false, true} {
				id++
				op := h.Op{Kind: h.OpDelete, ByID: true, Sel: h.Selector{Kind: h.SID, N: int64(target)}, Zero: zero, ZeroSet: true,
					Compact: true, CompactSet: true, T: h.TOpt{Kind: h.TDeterministic}}
				calls, res, fs := h.OracleCrash(id, pre, op, thorough, &st)
				s.Oracle = append(s.Oracle, fs...)
				s.OracleRuns["crash-pairs"]++
				s.OracleRuns["crafted-compactions"]++
				if calls != nil {
					mc := h.Case{ID: id, Backend: "buf", LoadBytes: pre, Steps: []h.Step{{Op: op, Trace: calls}}}
					if _, err := h.RunCase(&mc, tmp); err != nil {
						fmt.Fprintln(os.Stderr, "harness error:", err)
						os.Exit(3)
					}
					if len(mc.Steps) == 1 && mc.Steps[0].Obs.Res != res {
						s.Oracle = append(s.Oracle, h.Finding{Property: "C09", Case: id, What: "result differs between recorded and plain run: " + res + " / " + mc.Steps[0].Obs.Res})
					}
					tally(&s, &mc, distinct)
					cases = append(cases, mc)
				}
			}
		}
	}
	// one accepted call of every modifying operation on an image that holds a primary and a plain
	// system partition, an OCI blob and a generic object (SetPrimPart moving the primary is rare
	// in random histories)
	for v := 0; v < 2; v++ {
		r := root.Fork()
		var b sif.Buffer
		mkt := func(t sif.DataType, content string, opts ...sif.DescriptorInputOpt) sif.DescriptorInput {
			di, err := sif.NewDescriptorInput(t, strings.NewReader(content), opts...)
			if err != nil {
				panic(err)
			}
			return di
		}
		dis := []sif.DescriptorInput{
			mkt(sif.DataPartition, string(h.GenContent(r, 40)), sif.OptPartitionMetadata(sif.FsSquash, sif.PartPrimSys, "amd64"), sif.OptObjectAlignment(64)),
			mkt(sif.DataPartition, string(h.GenContent(r, 50)), sif.OptPartitionMetadata(sif.FsExt3, sif.PartSystem, "arm64"), sif.OptObjectAlignment(8)),
			mkt(sif.DataOCIBlob, string(h.GenContent(r, 30))),
			mkt(sif.DataGeneric, string(h.GenContent(r, 20+r.Intn(100)))),
		}
		if v == 1 {
			dis = dis[1:] // no primary partition yet
		}
		if _, err := sif.CreateContainer(&b, sif.OptCreateDeterministic(), sif.OptCreateWithDescriptorCapacity(7),
			sif.OptCreateWithDescriptors(dis...), sif.OptCreateWithCloseOnUnload(false)); err != nil {
			panic(err)
		}
		pre := append([]byte(nil), b.Bytes()...)
		sysID, ociID, genID := uint32(2), uint32(3), uint32(4)
		if v == 1 {
			sysID, ociID, genID = 1, 2, 3
		}
		det := h.TOpt{Kind: h.TDeterministic}
		ops := []h.Op{
			{Kind: h.OpSetPrim, ID: sysID, T: det},
			{Kind: h.OpSetPrim, ID: sysID, T: h.TOpt{Kind: h.TExplicit, T: 1700000001}},
			{Kind: h.OpSetMeta, ID: genID, Md: h.Meta{Kind: h.MdRaw, Raw: h.GenContent(r, 12)}, T: det},
			{Kind: h.OpSetOCI, ID: ociID, Alg: "sha256", Hex: h.Sha256Hex(h.GenContent(r, 8)), T: det},
			{Kind: h.OpAdd, DI: h.DInput{Type: h.DataGeneric, Content: h.GenContent(r, 33), FailAfter: -1, AlignSet: true, Align: 512}, T: det},
			{Kind: h.OpDelete, ByID: true, Sel: h.Selector{Kind: h.SID, N: int64(sysID)}, ZeroSet: true, Zero: true, T: det},
		}
		for _, op := range ops {
			id++
			calls, res, fs := h.OracleCrash(id, pre, op, thorough, &st)
			s.Oracle = append(s.Oracle, fs...)
			s.OracleRuns["crash-pairs"]++
			s.OracleRuns["crafted-accepted-calls"]++
			if res != "Ok" {
				s.Oracle = append(s.Oracle, h.Finding{Property: "C09", Case: id, What: "crafted " + op.KindName() + " was expected to be accepted, result " + res})
			}
			if calls != nil {
				mc := h.Case{ID: id, Backend: "buf", LoadBytes: pre, Steps: []h.Step{{Op: op, Trace: calls}}}
				if _, err := h.RunCase(&mc, tmp); err != nil {
					fmt.Fprintln(os.Stderr, "harness error:", err)
					os.Exit(3)
				}
				tally(&s, &mc, distinct)
				cases = append(cases, mc)
			}
		}
	}
	// sign: every storage call of Sign fails once; crash points between its calls
	{
		k := h.LoadKeys("/repo")
		signCalls, signFaults := 0, 0
		for v := 0; v < 4; v++ {
			r := root.Fork()
			b, info := h.GenGroupedImage(r)
			if len(info.Groups) == 0 {
				continue
			}
			cfg := h.GenSignConfig(r, k, b.Bytes())
			id++
			fs, n, nf := h.SignFaults(k, id, bytes.Clone(b.Bytes()), cfg, fmt.Sprintf("image {%s}; sign {%s}", info.Desc, cfg.String()))
			s.Oracle = append(s.Oracle, fs...)
			s.OracleRuns["sign-fault-injection"]++
			signCalls += n
			signFaults += nf
		}
		s.Extra["sign_calls"] = signCalls
		s.Extra["sign_injected_failures"] = signFaults
	}
	s.Extra["crash_points_between_calls"] = st.Boundaries
	s.Extra["torn_write_points"] = st.Torn
	s.Extra["injected_failures"] = st.Faults
	s.Extra["injected_short_writes"] = st.ShortWrites
	s.Cases = len(cases)
	s.Distinct = len(distinct)
	writeShards(&s, cases, shards, out, "crash")
	return s
}

package main

import (
	"fmt"
	"os"
	"path/filepath"
	"runtime"
	"strings"
	"sync"

	"verifharness/internal/h"
)

func newSummary(fam string, seed uint64) summary {
	return summary{
		Family: fam, Seed: seed, OpKinds: map[string]int{}, Results: map[string]int{},
		Backends: map[string]int{}, Caps: map[string]int{}, OracleRuns: map[string]int{},
		Extra: map[string]any{},
	}
}

// signing cases recorded by the signverify mode
var scases []*h.SCase

func writeSShards(s *summary, cases []*h.SCase, shards int, out string) {
	if len(cases) == 0 {
		return
	}
	if shards > len(cases) {
		shards = len(cases)
	}
	for k := 0; k < shards; k++ {
		lo, hi := k*len(cases)/shards, (k+1)*len(cases)/shards
		if lo == hi {
			continue
		}
		name := fmt.Sprintf("Cases_sign_%d.v", k)
		if err := os.WriteFile(filepath.Join(out, name), []byte(h.SCasesFile(cases[lo:hi])), 0o644); err != nil {
			panic(err)
		}
		s.Files = append(s.Files, name)
	}
	s.Extra["sign_cases"] = len(cases)
}

func writeVShards(s *summary, cases []*h.VCase, shards int, out, prefix string) {
	if shards < 1 {
		shards = 1
	}
	// cases of one base image stay together (they share its bytes)
	for k := 0; k < shards; k++ {
		lo, hi := k*len(cases)/shards, (k+1)*len(cases)/shards
		if lo == hi {
			continue
		}
		name := fmt.Sprintf("Cases_%s_%d.v", prefix, k)
		if err := os.WriteFile(filepath.Join(out, name), []byte(h.VCasesFile(cases[lo:hi])), 0o644); err != nil {
			panic(err)
		}
		s.Files = append(s.Files, name)
	}
}

func vtally(s *summary, c *h.VCase) {
	s.Cases++
	s.Steps += 1 + len(c.Obs.Results)
	s.Results[fmt.Sprintf("new=%v verify=%v", c.Obs.NewErr, c.Obs.VerifyErr)]++
}

func sample(r *h.Rng, ms []h.Mutation, n int) []h.Mutation {
	if n <= 0 || len(ms) <= n {
		return ms
	}
	// keep order, drop at random
	keep := make([]bool, len(ms))
	for k := 0; k < n; {
		i := r.Intn(len(ms))
		if !keep[i] {
			keep[i] = true
			k++
		}
	}
	var out []h.Mutation
	for i, m := range ms {
		if keep[i] {
			out = append(out, m)
		}
	}
	return out
}

// runVerify drives pkg/integrity. mode selects the case family.
func runVerify(seed uint64, n, shards int, out, mode string, thorough bool) summary {
	s := newSummary("verify-"+mode, seed)
	k := h.LoadKeys("/repo")
	root := h.NewRng(seed)
	cache := map[string]*h.SigFacts{}
	var cases []*h.VCase
	scases = nil
	id := 0
	addCase := func(img, base []byte, vo h.VOpts, what string) *h.VCase {
		id++
		c, ok := h.BuildVCase(k, id, img, vo, cache)
		if !ok {
			s.Results["does-not-load"]++
			return nil
		}
		c.Base, c.What = base, what
		if c.Obs.Altered {
			s.Oracle = append(s.Oracle, h.Finding{Property: "C17", Case: id, What: "verification or signer queries altered the image", Input: what})
		}
		vtally(&s, c)
		if len(s.Samples) < 4 && what != "unmodified" && (id%37 == 5 || len(s.Samples) == 0) {
			s.Samples = append(s.Samples, fmt.Sprintf("case %d: %s -> NewVerifier=%v Verify=%v, %d callback reports", id, what, c.Obs.NewErr, c.Obs.VerifyErr, len(c.Obs.Results)))
		}
		if c.Unrepr {
			s.Results["not-representable"]++
		}
		cases = append(cases, c)
		return c
	}
	switch mode {
	case "tamper":
		runTamper(&s, k, root, n, thorough, addCase)
	case "coverage":
		runCoverage(&s, k, root, n, thorough, addCase)
	case "signverify":
		runSignVerify(&s, k, root, n, thorough, addCase)
	case "keys":
		runKeys(&s, k, root, n, thorough, addCase)
	case "legacy":
		runLegacy(&s, k, root, n, thorough, addCase)
	case "signedby":
		runSignedBy(&s, k, root, n, thorough, addCase)
	default:
		fmt.Fprintln(os.Stderr, "unknown verify mode", mode)
		os.Exit(2)
	}
	s.Distinct = len(s.Results)
	writeVShards(&s, cases, shards, out, "verify")
	writeSShards(&s, scases, shards, out)
	return s
}

type addCaseFn func(img, base []byte, vo h.VOpts, what string) *h.VCase

func signedBase(k *h.Keys, r *h.Rng, spec h.BaseSpec) []byte {
	b := h.BuildUnsigned(r, spec.TwoGroups)
	if err := h.SignImage(k, b, spec); err != nil {
		fmt.Fprintln(os.Stderr, "harness error: signing base image:", err)
		os.Exit(3)
	}
	return append([]byte(nil), b.Bytes()...)
}

func specFindings(s *summary, c *h.VCase, desc string) {
	if len(c.Opts.Groups) > 0 || len(c.Opts.Objects) > 0 || c.Opts.Legacy || c.Opts.LegacyAll {
		return // not a default verification
	}
	s.OracleRuns["default-acceptance-vs-specification"]++
	accepted := c.Obs.NewErr == [2]int64{} && c.Obs.VerifyErr == [2]int64{}
	if ok, why := h.SpecDefaultAccept(c); accepted && !ok {
		s.Oracle = append(s.Oracle, h.Finding{Property: "C05", Case: c.ID,
			What: "default verification succeeded although " + why, Input: desc})
	}
}

func runTamper(s *summary, k *h.Keys, root *h.Rng, n int, thorough bool, addCase addCaseFn) {
	specs := h.BaseSpecs()
	exhaustive := int(root.U64() % uint64(len(specs)))
	for bi, spec := range specs {
		r := root.Fork()
		base := signedBase(k, r, spec)
		vo := h.VOptsFor(spec)
		if c := addCase(base, nil, vo, "unmodified"); c == nil || c.Obs.VerifyErr != [2]int64{} || c.Obs.NewErr != [2]int64{} {
			s.Oracle = append(s.Oracle, h.Finding{Property: "C06", Case: id0(c), What: "freshly signed base image does not verify", Input: spec.String()})
			continue
		}
		per := 1
		if thorough {
			per = 6
		}
		ms := append(h.BitFlips(r, base, per), h.Catalogue(r, base)...)
		s.Extra[fmt.Sprintf("base%d", bi)] = map[string]any{"spec": spec.String(), "bytes": len(base), "mutations_available": len(ms)}
		// always kept, and verified under every narrowing as well: the header's protected fields,
		// and one covered descriptor copied over another
		var always []h.Mutation
		copies := 0
		for _, m := range ms {
			switch {
			case strings.HasPrefix(m.What, "hdr launch"), strings.HasPrefix(m.What, "hdr id"):
				always = append(always, m)
			case strings.Contains(m.What, "copied into free slot") && strings.Contains(m.What, "with the same ID"):
				always = append(always, m)
			case strings.HasPrefix(m.What, "copy desc") && copies < 2 && r.Chance(1, 3):
				always = append(always, m)
				copies++
			}
		}
		// one instance of every kind of catalogue rewrite on an object that is covered by a
		// signature (the sample below may leave a kind out), under the default request and one
		// narrowed request
		var kindsAlways []h.Mutation
		{
			si, _ := h.DecodeImage(base)
			byKind := map[string][]h.Mutation{}
			var kinds []string
			for _, m := range ms {
				var di int
				var rest string
				if k, _ := fmt.Sscanf(m.What, "desc%d ", &di); k == 1 && di < len(si.Descs) && si.Descs[di].Used && si.Descs[di].Type != h.DataSignature {
					rest = m.What[strings.Index(m.What, " ")+1:]
					if byKind[rest] == nil {
						kinds = append(kinds, rest)
					}
					byKind[rest] = append(byKind[rest], m)
				}
			}
			for _, kd := range kinds {
				kindsAlways = append(kindsAlways, h.Pick(r, byKind[kd]))
			}
			s.OpKinds["catalogue-kinds-always-tried"] += len(kinds)
		}
		ms = sample(r, ms, n)
		ms = append(ms, h.MultiSite(r, base, min(n/3+4, 600))...)
		for _, m := range always {
			desc := fmt.Sprintf("base %d {%s}; %s", bi, spec.String(), m.What)
			for _, nv := range narrowings(vo, base) {
				if c := addCase(m.Img, base, nv, desc+" (narrowed)"); c != nil {
					s.OracleRuns["tamper-accepted-implies-same-protected-view"]++
					s.Oracle = append(s.Oracle, h.TamperFindings(base, c, fmt.Sprintf("%s (groups %v objects %v)", desc, nv.Groups, nv.Objects))...)
				}
			}
		}
		ms = append(ms, always...)
		for _, m := range kindsAlways {
			desc := fmt.Sprintf("base %d {%s}; %s", bi, spec.String(), m.What)
			if nvs := narrowings(vo, base); len(nvs) > 0 {
				nv := h.Pick(r, nvs)
				if c := addCase(m.Img, base, nv, desc+" (narrowed)"); c != nil {
					s.OracleRuns["tamper-accepted-implies-same-protected-view"]++
					s.Oracle = append(s.Oracle, h.TamperFindings(base, c, fmt.Sprintf("%s (groups %v objects %v)", desc, nv.Groups, nv.Objects))...)
				}
			}
		}
		ms = append(ms, kindsAlways...)
		ms = append(ms, h.ContentFlips(base)...)
		for mi, m := range ms {
			desc := fmt.Sprintf("base %d {%s}; %s", bi, spec.String(), m.What)
			c := addCase(m.Img, base, vo, desc)
			if c == nil {
				continue
			}
			s.OracleRuns["tamper-accepted-implies-same-protected-view"]++
			s.Oracle = append(s.Oracle, h.TamperFindings(base, c, desc)...)
			specFindings(s, c, desc)
			if c.Obs.VerifyErr == [2]int64{} && c.Obs.NewErr == [2]int64{} {
				s.OpKinds["accepted-mutants"]++
			} else {
				s.OpKinds["rejected-mutants"]++
			}
			// narrowed verification of the same mutant
			if mi%4 == 0 {
				nv := vo
				if mi%8 == 0 {
					nv.Groups = []uint32{1}
				} else {
					nv.Objects = []uint32{1 + uint32(r.Intn(3))}
				}
				if c2 := addCase(m.Img, base, nv, desc+" (narrowed)"); c2 != nil {
					s.OracleRuns["tamper-accepted-implies-same-protected-view"]++
					s.Oracle = append(s.Oracle, h.TamperFindings(base, c2, desc+" (narrowed)")...)
				}
			}
		}
		// every single-bit flip of the whole file, against the library and the protected view only
		if thorough || bi == exhaustive && n >= 36 {
			fs, cnt, acc := exhaustiveFlips(k, base, vo, fmt.Sprintf("base %d {%s}", bi, spec.String()))
			s.Oracle = append(s.Oracle, fs...)
			s.OracleRuns["exhaustive-single-bit-flips"] += cnt
			s.OpKinds["accepted-flips"] += acc
		}
	}
}

// narrowings: the requests that name one group, or one object of it, of a signed image.
func narrowings(vo h.VOpts, img []byte) []h.VOpts {
	var out []h.VOpts
	si, err := h.DecodeImage(img)
	if err != nil {
		return nil
	}
	seen := map[uint32]bool{}
	for _, d := range si.Descs {
		if !d.Used || d.Type == h.DataSignature || d.GroupID() == 0 || seen[d.GroupID()] {
			continue
		}
		seen[d.GroupID()] = true
		g := vo
		g.Objects, g.Groups = nil, []uint32{d.GroupID()}
		o := vo
		o.Groups, o.Objects = nil, []uint32{d.ID}
		out = append(out, g, o)
	}
	return out
}

func id0(c *h.VCase) int {
	if c == nil {
		return 0
	}
	return c.ID
}

func exhaustiveFlips(k *h.Keys, base []byte, vo h.VOpts, desc string) ([]h.Finding, int, int) {
	var mu sync.Mutex
	var out []h.Finding
	acc := 0
	var wg sync.WaitGroup
	w := runtime.NumCPU()
	for t := 0; t < w; t++ {
		wg.Add(1)
		go func(t int) {
			defer wg.Done()
			for off := t; off < len(base); off += w {
				for bit := 0; bit < 8; bit++ {
					img := append([]byte(nil), base...)
					img[off] ^= 1 << uint(bit)
					obs, loaded := h.RunVerify(k, img, vo)
					if !loaded || obs.NewErr != [2]int64{} || obs.VerifyErr != [2]int64{} {
						continue
					}
					c := &h.VCase{ID: -1, Image: img, Opts: vo, Obs: obs}
					fs := h.TamperFindings(base, c, fmt.Sprintf("%s; flip byte %d bit %d", desc, off, bit))
					mu.Lock()
					acc++
					out = append(out, fs...)
					mu.Unlock()
				}
			}
		}(t)
	}
	wg.Wait()
	return out, len(base) * 8, acc
}

func runCoverage(s *summary, k *h.Keys, root *h.Rng, n int, thorough bool, addCase addCaseFn) {
	for bi, spec := range h.BaseSpecs() {
		if len(spec.Objects) > 0 || len(spec.Groups) > 0 {
			continue
		}
		r := root.Fork()
		base := signedBase(k, r, spec)
		vo := h.VOptsFor(spec)
		if c := addCase(base, nil, vo, "unmodified"); c != nil {
			specFindings(s, c, "unmodified")
		}
		edits := h.APIEdits(r, base)
		s.OpKinds["api-edits"] += len(edits)
		table := sample(r, h.TableEdits(r, base, thorough), n)
		s.OpKinds["table-edits"] += len(table)
		for _, m := range append(edits, table...) {
			desc := fmt.Sprintf("base %d {%s}; %s", bi, spec.String(), m.What)
			c := addCase(m.Img, base, vo, desc)
			if c == nil {
				continue
			}
			specFindings(s, c, desc)
			accepted := c.Obs.VerifyErr == [2]int64{} && c.Obs.NewErr == [2]int64{}
			if accepted {
				s.OpKinds["accepted-edits"]++
			}
			if m.MustFail && accepted {
				s.Oracle = append(s.Oracle, h.Finding{Property: "C05", Case: c.ID, Class: m.Class,
					What: "default verification still succeeds after: " + m.What, Input: desc})
			}
		}
	}
}

package main

import (
	"bytes"
	"fmt"
	"math"
	"strings"

	"github.com/google/uuid"
	"github.com/sylabs/sif/v2/pkg/sif"
)

// C15: "header, list and info report the true header and descriptor values". The expected
// reports are written from the documented layout of the three commands over the library's
// accessors on a fresh load of the file (the accessors themselves are checked against the
// independent decoder by the history families); comparison is modulo column padding.

func normReport(s string) string {
	var out []string
	for _, l := range strings.Split(s, "\n") {
		if f := strings.Fields(l); len(f) > 0 {
			out = append(out, strings.Join(f, " "))
		}
	}
	return strings.Join(out, "\n")
}

func humanSize(n int64) string {
	if -1024 < n && n < 1024 {
		return fmt.Sprintf("%d B", n)
	}
	units := []string{"KiB", "MiB", "GiB", "TiB", "PiB", "EiB"}
	v := float64(n) / 1024
	u := 0
	for math.Abs(math.Trunc(v)) >= 1024 && u < len(units)-1 {
		// the next unit is used once the whole part reaches 1024
		v /= 1024
		u++
	}
	return fmt.Sprintf("%.0f %s", math.Round(v), units[u])
}

func linkText(d sif.Descriptor, list bool) string {
	id, isGroup := d.LinkedID()
	switch {
	case id == 0:
		return "NONE"
	case isGroup:
		return fmt.Sprintf("%d (G)", id)
	}
	return fmt.Sprint(id)
}

func groupText(d sif.Descriptor) string {
	if d.GroupID() == 0 {
		return "NONE"
	}
	return fmt.Sprint(d.GroupID())
}

// expectedReport returns the report `kind` must print for the image (id: the object for info).
func expectedReport(kind string, img []byte, id uint32) (string, bool) {
	f, err := sif.LoadContainer(sif.NewBuffer(bytes.Clone(img)), sif.OptLoadWithCloseOnUnload(false))
	if err != nil {
		return "", false
	}
	var sb strings.Builder
	line := func(label string, v any) { fmt.Fprintf(&sb, "%s: %v\n", label, v) }
	switch kind {
	case "header":
		if s := f.LaunchScript(); s != "" {
			line("Launch Script", strings.TrimSuffix(s, "\n"))
		}
		line("Version", f.Version())
		if a := f.PrimaryArch(); a != "unknown" {
			line("Primary Architecture", a)
		}
		if f.ID() != uuid.Nil.String() {
			line("ID", f.ID())
		}
		if t := f.CreatedAt(); !t.IsZero() {
			line("Created At", t.UTC())
		}
		if t := f.ModifiedAt(); !t.IsZero() {
			line("Modified At", t.UTC())
		}
		line("Descriptors Free", f.DescriptorsFree())
		line("Descriptors Total", f.DescriptorsTotal())
		line("Descriptors Offset", f.DescriptorsOffset())
		line("Descriptors Size", humanSize(f.DescriptorsSize()))
		line("Data Offset", f.DataOffset())
		line("Data Size", humanSize(f.DataSize()))
	case "list":
		bar := strings.Repeat("-", 78)
		fmt.Fprintf(&sb, "%s\nID |GROUP |LINK |SIF POSITION (start-end) |TYPE\n%s\n", bar, bar)
		f.WithDescriptors(func(d sif.Descriptor) bool {
			fmt.Fprintf(&sb, "%d |%s |%s |%d-%d |%s", d.ID(), groupText(d), linkText(d, true), d.Offset(), d.Offset()+d.Size(), d.DataType())
			switch d.DataType() {
			case sif.DataPartition:
				if fs, pt, arch, err := d.PartitionMetadata(); err == nil {
					fmt.Fprintf(&sb, " (%s/%s/%s)", fs, pt, arch)
				}
			case sif.DataSignature:
				if ht, _, err := d.SignatureMetadata(); err == nil {
					fmt.Fprintf(&sb, " (%s)", ht)
				}
			case sif.DataCryptoMessage:
				if ft, mt, err := d.CryptoMessageMetadata(); err == nil {
					fmt.Fprintf(&sb, " (%s/%s)", ft, mt)
				}
			case sif.DataSBOM:
				if sf, err := d.SBOMMetadata(); err == nil {
					fmt.Fprintf(&sb, " (%s)", sf)
				}
			}
			sb.WriteString("\n")
			return false
		})
	case "info":
		d, err := f.GetDescriptor(sif.WithID(id))
		if err != nil {
			return "", false
		}
		line("Data Type", d.DataType())
		line("ID", d.ID())
		line("Group ID", groupText(d))
		line("Linked ID", linkText(d, false))
		line("Offset", d.Offset())
		line("Size", d.Size())
		if t := d.CreatedAt(); !t.IsZero() {
			line("Created At", t.UTC())
		}
		if t := d.ModifiedAt(); !t.IsZero() {
			line("Modified At", t.UTC())
		}
		if d.Name() != "" {
			line("Name", d.Name())
		}
		switch d.DataType() {
		case sif.DataPartition:
			fs, pt, arch, err := d.PartitionMetadata()
			if err != nil {
				return "", false
			}
			line("Filesystem Type", fs)
			line("Partition Type", pt)
			line("Architecture", arch)
		case sif.DataSignature:
			ht, fp, err := d.SignatureMetadata()
			if err != nil {
				return "", false
			}
			line("Hash Type", ht)
			if len(fp) > 0 {
				line("Entity", fmt.Sprintf("%X", fp))
			}
		case sif.DataCryptoMessage:
			ft, mt, err := d.CryptoMessageMetadata()
			if err != nil {
				return "", false
			}
			line("Format Type", ft)
			line("Message Type", mt)
		case sif.DataSBOM:
			sf, err := d.SBOMMetadata()
			if err != nil {
				return "", false
			}
			line("Format", sf)
		case sif.DataOCIRootIndex, sif.DataOCIBlob:
			hh, err := d.OCIBlobDigest()
			if err != nil {
				return "", false
			}
			line("Digest", hh)
		}
	default:
		return "", false
	}
	return normReport(sb.String()), true
}

package main

import (
	"bufio"
	"bytes"
	"fmt"
	"io"
	"os"
	"os/exec"
	"path/filepath"
	"runtime"
	"strconv"
	"strings"
	"time"

	"github.com/spf13/cobra"
	"github.com/sylabs/sif/v2/pkg/integrity"
	"github.com/sylabs/sif/v2/pkg/sif"
	"github.com/sylabs/sif/v2/pkg/siftool"
	"verifharness/internal/h"
)

// C10: hostile input. The parent generates byte strings; a child process (address space capped
// with ulimit -v) loads each and exercises every read-only facility and the siftool inspection
// commands, reporting wall time and bytes allocated; a panic, a kill or a timeout of the child
// is attributed to the input it was working on.

const (
	hostileTimeLimit  = 3 * time.Second
	hostileAllocFixed = 96 << 20 // bytes a single input may make the process allocate: fixed part
	hostileAllocPerB  = 64       // plus this many per input byte
)

func siftoolRun(path string, args ...string) {
	root := &cobra.Command{Use: "siftool", SilenceUsage: true, SilenceErrors: true}
	_ = siftool.AddCommands(root)
	root.SetOut(io.Discard)
	root.SetErr(io.Discard)
	root.SetArgs(append(args, path))
	_ = root.Execute()
}

// exercise runs every read-only facility on the image stored at path.
func exercise(k *h.Keys, path string, img []byte) {
	f, err := sif.LoadContainer(sif.NewBuffer(bytes.Clone(img)), sif.OptLoadWithCloseOnUnload(false))
	if err == nil {
		_ = f.LaunchScript()
		_ = f.Version()
		_ = f.PrimaryArch()
		_ = f.ID()
		_ = f.CreatedAt()
		_ = f.ModifiedAt()
		_ = f.DescriptorsFree() + f.DescriptorsTotal() + f.DescriptorsOffset() + f.DescriptorsSize() + f.DataOffset() + f.DataSize()
		_, _ = io.Copy(io.Discard, f.GetHeaderIntegrityReader())
		sels := [][]sif.DescriptorSelectorFunc{
			nil, {sif.WithDataType(sif.DataPartition)}, {sif.WithID(1)}, {sif.WithGroupID(1)}, {sif.WithNoGroup()},
			{sif.WithLinkedID(1)}, {sif.WithLinkedGroupID(1)}, {sif.WithPartitionType(sif.PartPrimSys)},
			{sif.WithDataType(sif.DataSignature), sif.WithLinkedGroupID(1)},
		}
		for _, s := range sels {
			_, _ = f.GetDescriptors(s...)
			_, _ = f.GetDescriptor(s...)
		}
		f.WithDescriptors(func(d sif.Descriptor) bool {
			_ = d.DataType()
			_ = d.ID()
			_ = d.GroupID()
			_, _ = d.LinkedID()
			_ = d.Offset() + d.Size()
			_ = d.Name()
			_ = d.CreatedAt()
			_ = d.ModifiedAt()
			_, _, _, _ = d.PartitionMetadata()
			_, _, _ = d.SignatureMetadata()
			_, _, _ = d.CryptoMessageMetadata()
			_, _ = d.SBOMMetadata()
			_, _ = d.OCIBlobDigest()
			_, _ = d.GetData()
			_, _ = io.Copy(io.Discard, d.GetReader())
			_, _ = io.Copy(io.Discard, d.GetIntegrityReader())
			return false
		})
		for _, mode := range [][]integrity.VerifierOpt{
			nil, {integrity.OptVerifyLegacy()}, {integrity.OptVerifyLegacyAll()}, {integrity.OptVerifyGroup(1)}, {integrity.OptVerifyObject(1)},
		} {
			opts := append([]integrity.VerifierOpt{
				integrity.OptVerifyWithKeyRing(keyRing(k)),
				integrity.OptVerifyWithVerifier(k.Verifiers["ed25519"], k.Verifiers["rsa"], k.Verifiers["ecdsa"]),
				integrity.OptVerifyCallback(func(integrity.VerifyResult) bool { return true }),
			}, mode...)
			if v, err := integrity.NewVerifier(f, opts...); err == nil {
				_, _ = v.AnySignedBy()
				_, _ = v.AllSignedBy()
				_ = v.Verify()
			}
		}
	}
	siftoolRun(path, "header")
	siftoolRun(path, "list")
	siftoolRun(path, "info", "1")
	siftoolRun(path, "dump", "1")
	siftoolRun(path, "info", "2")
	siftoolRun(path, "dump", "2")
}

// hostileChild processes <dir>/in_<i>.bin for i = from..to-1 and reports one line per input.
func hostileChild(dir string, from, to int) {
	k := h.LoadKeys("/repo")
	w := bufio.NewWriter(os.Stdout)
	defer w.Flush()
	for i := from; i < to; i++ {
		path := filepath.Join(dir, fmt.Sprintf("in_%05d.bin", i))
		img, err := os.ReadFile(path)
		if err != nil {
			fmt.Fprintf(w, "SKIP %d\n", i)
			continue
		}
		fmt.Fprintf(w, "START %d\n", i)
		w.Flush()
		var m0, m1 runtime.MemStats
		runtime.ReadMemStats(&m0)
		t0 := time.Now()
		exercise(k, path, img)
		dt := time.Since(t0)
		runtime.ReadMemStats(&m1)
		fmt.Fprintf(w, "OK %d %d %d\n", i, dt.Milliseconds(), m1.TotalAlloc-m0.TotalAlloc)
		w.Flush()
	}
}

type hostileInput struct {
	what string
	img  []byte
}

func putLE(b []byte, off, n int, v uint64) {
	for i := 0; i < n && off+i < len(b); i++ {
		b[off+i] = byte(v >> (8 * uint(i)))
	}
}

func hostileInputs(k *h.Keys, r *h.Rng, n int, thorough bool) []hostileInput {
	var out []hostileInput
	add := func(what string, img []byte) { out = append(out, hostileInput{what, img}) }
	// bases: unsigned, PGP-signed, DSSE-signed two groups
	b0 := h.BuildUnsigned(r, false)
	bases := [][]byte{bytes.Clone(b0.Bytes()),
		signedBase(k, r, h.BaseSpec{Scheme: "pgp", Entity: 0}),
		signedBase(k, r, h.BaseSpec{Scheme: "dsse", DSSEKeys: []string{"ed25519"}, TwoGroups: true})}
	names := []string{"unsigned", "pgp-signed", "dsse-signed"}
	// legacy signatures, linked to objects and to groups (the legacy verifiers read other paths)
	nl := 0
	for _, lb := range legacyBases(k, r.Fork()) {
		if nl < 2 && lb.hasLegacy && (strings.Contains(lb.desc, "legacy-all") || strings.HasPrefix(lb.desc, "generated (two groups: false)")) && len(lb.img) < 200000 {
			bases = append(bases, lb.img)
			names = append(names, fmt.Sprintf("legacy-signed-%d", nl))
			nl++
		}
	}
	hdrFields := []struct {
		n   string
		off int
	}{{"ctime", 64}, {"mtime", 72}, {"free", 80}, {"total", 88}, {"descoff", 96}, {"descsize", 104}, {"dataoff", 112}, {"datasize", 120}}
	descFields := []struct {
		n        string
		off, len int
	}{{"type", 0, 4}, {"used", 4, 1}, {"id", 5, 4}, {"group", 9, 4}, {"link", 13, 4}, {"offset", 17, 8}, {"size", 25, 8},
		{"sizepad", 33, 8}, {"ctime", 41, 8}, {"mtime", 49, 8}, {"uid", 57, 8}, {"gid", 65, 8}}
	for bi, base := range bases {
		L := uint64(len(base))
		vals := []uint64{0, 1, ^uint64(0), 1 << 63, 1<<63 - 1, L, L + 1, L - 1, 1 << 32, 1 << 31, 1 << 40, 585, 4096}
		// counts and sizes whose product with an element size wraps around to something small
		for _, m := range []uint64{585, 128, 8} {
			vals = append(vals, ^uint64(0)/m+1, ^uint64(0)/m+2, (1<<63)/m+1)
		}
		add(names[bi]+": unmodified", base)
		for _, f := range hdrFields {
			for _, v := range vals {
				m := bytes.Clone(base)
				putLE(m, f.off, 8, v)
				add(fmt.Sprintf("%s: header %s := %#x", names[bi], f.n, v), m)
			}
		}
		for _, bf := range []struct {
			n        string
			off, len int
		}{{"launch", 0, 32}, {"magic", 32, 10}, {"version", 42, 3}, {"arch", 45, 3}, {"id", 48, 16}} {
			for _, fill := range []byte{0xff, 'A', 0x00} {
				m := bytes.Clone(base)
				for j := 0; j < bf.len; j++ {
					m[bf.off+j] = fill
				}
				add(fmt.Sprintf("%s: header %s filled with %#x", names[bi], bf.n, fill), m)
			}
		}
		// pairs of header fields
		np := 60
		if thorough {
			np = len(hdrFields) * len(hdrFields) * len(vals) * len(vals)
		}
		for c := 0; c < np; c++ {
			f1, f2 := hdrFields[r.Intn(len(hdrFields))], hdrFields[r.Intn(len(hdrFields))]
			v1, v2 := vals[r.Intn(len(vals))], vals[r.Intn(len(vals))]
			m := bytes.Clone(base)
			putLE(m, f1.off, 8, v1)
			putLE(m, f2.off, 8, v2)
			add(fmt.Sprintf("%s: header %s := %#x, %s := %#x", names[bi], f1.n, v1, f2.n, v2), m)
		}
		si, err := h.DecodeImage(base)
		if err != nil {
			continue
		}
		// the first descriptors and every signature descriptor (up to four of them)
		var slots []int
		nsig := 0
		for di, d := range si.Descs {
			if di < 4 || d.Used && d.Type == h.DataSignature && nsig < 4 {
				slots = append(slots, di)
				if d.Used && d.Type == h.DataSignature {
					nsig++
				}
			}
		}
		for _, di := range slots {
			o := int(si.H.DescOff) + di*h.DescSize
			for _, f := range descFields {
				for _, v := range vals {
					m := bytes.Clone(base)
					putLE(m, o+f.off, f.len, v)
					add(fmt.Sprintf("%s: descriptor %d %s := %#x", names[bi], di, f.n, v), m)
				}
			}
			// offset and size together: both negative, both huge
			for _, ov := range []uint64{^uint64(0), 1 << 63, 1<<63 + 62, 1<<63 - 1} {
				for _, sv := range []uint64{^uint64(0), 1 << 63, 1<<63 + 5, 1<<63 - 1} {
					m := bytes.Clone(base)
					putLE(m, o+17, 8, ov)
					putLE(m, o+25, 8, sv)
					add(fmt.Sprintf("%s: descriptor %d offset := %#x, size := %#x", names[bi], di, ov, sv), m)
				}
			}
			// byte-string fields: no terminating NUL, all ones, all zero
			for _, bf := range []struct {
				n        string
				off, len int
			}{{"name", 73, 128}, {"extra", 201, 384}} {
				for _, fill := range []byte{0xff, 'A', 0x00, 0x80} {
					m := bytes.Clone(base)
					for j := 0; j < bf.len; j++ {
						m[o+bf.off+j] = fill
					}
					add(fmt.Sprintf("%s: descriptor %d %s filled with %#x", names[bi], di, bf.n, fill), m)
				}
			}
			for c := 0; c < 25; c++ {
				f1, f2 := descFields[r.Intn(len(descFields))], descFields[r.Intn(len(descFields))]
				v1, v2 := vals[r.Intn(len(vals))], vals[r.Intn(len(vals))]
				m := bytes.Clone(base)
				putLE(m, o+f1.off, f1.len, v1)
				putLE(m, o+f2.off, f2.len, v2)
				add(fmt.Sprintf("%s: descriptor %d %s := %#x, %s := %#x", names[bi], di, f1.n, v1, f2.n, v2), m)
			}
		}
		// single-bit flips of header and first descriptors, and of signature data
		nf := 250
		if thorough {
			nf = 6000
		}
		for c := 0; c < nf; c++ {
			off := r.Intn(128)
			if c%3 != 0 {
				off = int(si.H.DescOff) + r.Intn(4*h.DescSize)
			}
			if c%7 == 0 {
				off = int(si.H.DataOff) + r.Intn(len(base)-int(si.H.DataOff))
			}
			m := bytes.Clone(base)
			bit := r.Intn(8)
			m[off] ^= 1 << uint(bit)
			add(fmt.Sprintf("%s: flip byte %d bit %d", names[bi], off, bit), m)
		}
		for _, cut := range []int{0, 1, 31, 127, 128, 129, 4095, 4096, 4097, 4096 + 585, len(base) - 1, len(base) / 2} {
			if cut <= len(base) {
				add(fmt.Sprintf("%s: truncated to %d bytes", names[bi], cut), bytes.Clone(base[:cut]))
			}
		}
	}
	cn, ci := h.CorpusImages("/repo")
	for i := range cn {
		if len(ci[i]) <= 400000 {
			add("corpus: "+cn[i], ci[i])
		}
	}
	for c := 0; c < 20; c++ {
		add("random bytes", h.GenContent(r, 64+r.Intn(6000)))
	}
	if n > 0 && len(out) > n {
		// keep the unmodified ones and a random subset
		keep := out[:0:0]
		for i, x := range out {
			if strings.HasSuffix(x.what, "unmodified") || r.Intn(len(out)) < n || i < 0 {
				keep = append(keep, x)
			}
		}
		out = keep
	}
	return out
}

func runHostile(seed uint64, n int, out string, thorough bool) summary {
	s := newSummary("hostile", seed)
	k := h.LoadKeys("/repo")
	r := h.NewRng(seed)
	ins := hostileInputs(k, r, n, thorough)
	dir := filepath.Join(out, "inputs")
	if err := os.MkdirAll(dir, 0o755); err != nil {
		panic(err)
	}
	for i, in := range ins {
		if err := os.WriteFile(filepath.Join(dir, fmt.Sprintf("in_%05d.bin", i)), in.img, 0o644); err != nil {
			panic(err)
		}
	}
	self, _ := os.Executable()
	finding := func(i int, what string) {
		keep := filepath.Join(out, fmt.Sprintf("hostile_%05d.bin", i))
		_ = os.WriteFile(keep, ins[i].img, 0o644)
		s.Oracle = append(s.Oracle, h.Finding{Property: "C10", Case: i, What: what,
			Input: fmt.Sprintf("%s (%d bytes, sha256 %s)", ins[i].what, len(ins[i].img), h.Sha256Hex(ins[i].img))})
	}
	maxMs, maxAlloc := int64(0), uint64(0)
	from := 0
	for from < len(ins) {
		// 6 GB of address space for the child; the per-input time limit is enforced below
		cmd := exec.Command("sh", "-c", fmt.Sprintf("ulimit -v 6000000; exec %s hostile-child %s %d %d", self, dir, from, len(ins)))
		stdout, _ := cmd.StdoutPipe()
		var stderr bytes.Buffer
		cmd.Stderr = &stderr
		if err := cmd.Start(); err != nil {
			panic(err)
		}
		lines := make(chan string, 64)
		go func() {
			sc := bufio.NewScanner(stdout)
			for sc.Scan() {
				lines <- sc.Text()
			}
			close(lines)
		}()
		current, done := -1, from
		timedOut := false
	loop:
		for {
			select {
			case ln, ok := <-lines:
				if !ok {
					break loop
				}
				fs := strings.Fields(ln)
				switch fs[0] {
				case "START":
					current, _ = strconv.Atoi(fs[1])
				case "SKIP":
					i, _ := strconv.Atoi(fs[1])
					done = i + 1
				case "OK":
					i, _ := strconv.Atoi(fs[1])
					ms, _ := strconv.ParseInt(fs[2], 10, 64)
					al, _ := strconv.ParseUint(fs[3], 10, 64)
					done = i + 1
					current = -1
					s.Cases++
					if ms > maxMs {
						maxMs = ms
					}
					if al > maxAlloc {
						maxAlloc = al
					}
					if time.Duration(ms)*time.Millisecond > hostileTimeLimit {
						finding(i, fmt.Sprintf("the read-only facilities took %d ms on this input", ms))
					}
					if al > hostileAllocFixed+hostileAllocPerB*uint64(len(ins[i].img)) {
						finding(i, fmt.Sprintf("the read-only facilities allocated %d bytes for an input of %d bytes", al, len(ins[i].img)))
					}
				}
			case <-time.After(4 * hostileTimeLimit):
				timedOut = true
				_ = cmd.Process.Kill()
				break loop
			}
		}
		err := cmd.Wait()
		if current >= 0 {
			why := "the process died"
			if timedOut {
				why = fmt.Sprintf("no result within %v", 4*hostileTimeLimit)
			}
			tail := stderr.String()
			if len(tail) > 600 {
				tail = tail[:600]
			}
			finding(current, fmt.Sprintf("%s while loading / inspecting this input (%v): %s", why, err, tail))
			s.Cases++
			done = current + 1
		} else if err != nil && done < len(ins) {
			finding(done, fmt.Sprintf("child process failed: %v %s", err, stderr.String()))
			done++
		}
		if done <= from {
			done = from + 1
		}
		from = done
	}
	s.Steps = s.Cases
	s.Distinct = s.Cases
	s.OracleRuns["inputs-exercised-in-a-child-process"] = s.Cases
	s.Extra["max_wall_ms"] = maxMs
	s.Extra["max_alloc_bytes"] = maxAlloc
	s.Extra["limits"] = fmt.Sprintf("wall %v, alloc %d + %d*len, address space 6 GB", hostileTimeLimit, hostileAllocFixed, hostileAllocPerB)
	kinds := map[string]int{}
	for _, in := range ins {
		w := in.what
		if i := strings.Index(w, ":"); i > 0 {
			w = strings.Fields(w[i+1:])[0]
		}
		kinds[w]++
	}
	for k2, v := range kinds {
		s.OpKinds[k2] = v
	}
	s.Samples = []string{fmt.Sprintf("%d inputs; slowest %d ms; largest allocation %d bytes", len(ins), maxMs, maxAlloc)}
	_ = os.RemoveAll(dir)
	return s
}

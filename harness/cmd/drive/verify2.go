package main

import (
	"bytes"
	"crypto"
	"fmt"
	"github.com/ProtonMail/go-crypto/openpgp/packet"
	"os"
	"path/filepath"
	"sort"
	"strings"

	"github.com/sylabs/sif/v2/pkg/sif"
	"verifharness/internal/h"
)

func u32set(xs []uint32) map[uint32]bool {
	m := map[uint32]bool{}
	for _, x := range xs {
		m[x] = true
	}
	return m
}

func sameSet(a []uint32, b map[uint32]bool) bool {
	if len(a) != len(b) {
		return false
	}
	for _, x := range a {
		if !b[x] {
			return false
		}
	}
	return true
}

func members(img []byte, g uint32) map[uint32]bool {
	si, _ := h.DecodeImage(img)
	m := map[uint32]bool{}
	for _, d := range si.Descs {
		if d.Used && d.GroupID() == g {
			m[d.ID] = true
		}
	}
	return m
}

// expectVerified: verification "for what was signed" must succeed and report exactly the
// covered objects.
func expectVerified(s *summary, c *h.VCase, desc string) { expectVerifiedC(s, c, desc, "") }

func expectVerifiedC(s *summary, c *h.VCase, desc, class string) {
	if c == nil {
		return
	}
	s.OracleRuns["signed-implies-verifies"]++
	bad := func(format string, a ...any) {
		s.Oracle = append(s.Oracle, h.Finding{Property: "C06", Case: c.ID, Class: class, What: fmt.Sprintf(format, a...), Input: desc})
	}
	if !c.Obs.Accepted() {
		bad("verification of what was signed fails: NewVerifier=%v Verify=%v", c.Obs.NewErr, c.Obs.VerifyErr)
		return
	}
	if len(c.Obs.Results) == 0 {
		bad("verification succeeded without reporting any signature")
	}
	si, _ := h.DecodeImage(c.Image)
	sigGroup := map[uint32]uint32{}
	for _, d := range si.Descs {
		if d.Used && d.Type == h.DataSignature && d.LinkIsGroup() {
			sigGroup[d.ID] = d.LinkID()
		}
	}
	objs := u32set(c.Opts.Objects)
	covered := map[uint32]bool{}
	for _, r := range c.Obs.Results {
		if r.Err != [2]int64{} {
			bad("signature %d reported error %v although verification succeeded", r.Sig, r.Err)
		}
		for _, id := range r.Verified {
			covered[id] = true
		}
		m := members(c.Image, sigGroup[r.Sig])
		switch {
		case sameSet(r.Verified, m):
		case len(r.Verified) == 1 && objs[r.Verified[0]]:
		default:
			bad("signature %d reports %v as verified: neither its whole group %v nor a requested object", r.Sig, r.Verified, keys(m))
		}
	}
	want := map[uint32]bool{}
	switch {
	case len(c.Opts.Groups) == 0 && len(c.Opts.Objects) == 0:
		for _, d := range si.Descs {
			if d.Used && d.GroupID() != 0 {
				want[d.ID] = true
			}
		}
	default:
		for _, g := range c.Opts.Groups {
			for id := range members(c.Image, g) {
				want[id] = true
			}
		}
		for id := range objs {
			want[id] = true
		}
	}
	if len(want) != len(covered) {
		bad("objects reported as verified %v are not exactly the requested ones %v", keys(covered), keys(want))
	}
}

func keys(m map[uint32]bool) []uint32 {
	var out []uint32
	for k := range m {
		out = append(out, k)
	}
	sort.Slice(out, func(i, j int) bool { return out[i] < out[j] })
	return out
}

func runSignVerify(s *summary, k *h.Keys, root *h.Rng, n int, thorough bool, addCase addCaseFn) {
	for i := 0; i < n; i++ {
		r := root.Fork()
		b, info, hist := h.GenGroupedImageH(r)
		before := bytes.Clone(b.Bytes())
		if len(info.Groups) == 0 {
			continue
		}
		cfg := h.GenSignConfig(r, k, before)
		desc := fmt.Sprintf("image %d {%s}; sign {%s}", i, info.Desc, cfg.String())
		s.OpKinds["scheme-"+cfg.Scheme]++
		switch {
		case len(cfg.Objects) > 0:
			s.OpKinds["select-objects"]++
		case len(cfg.Groups) > 0:
			s.OpKinds["select-groups"]++
		default:
			s.OpKinds["select-default"]++
		}
		// sign on the handle the pre-signing history ran on, or on a fresh one
		f := hist
		if i%2 == 1 {
			var err error
			if f, err = sif.LoadContainer(b, sif.OptLoadWithCloseOnUnload(false)); err != nil {
				panic(err)
			}
			desc += "; reloaded before signing"
		}
		sc0 := h.RunSign(k, 1000+i, before, cfg)
		if sc0 != nil {
			scases = append(scases, sc0)
		}
		// C12: with the deterministic option, a fixed signature time, the PGP salt disabled and
		// a deterministic algorithm (Ed25519 under DSSE; RSA or EdDSA under PGP) signing is reproducible
		if sc0 != nil && cfg.TimeMode == 0 && reproducibleScheme(k, cfg) {
			s.OracleRuns["signing-twice-gives-the-same-bytes"]++
			ns := cfg
			ns.NoSalt = true // "salt disabled"
			if sc0, sc1 := h.RunSign(k, 1000+i, before, ns), h.RunSign(k, 1000+i, before, ns); sc0 != nil && sc1 != nil && sc0.Err == sc1.Err && !bytes.Equal(sc0.After, sc1.After) {
				s.Oracle = append(s.Oracle, h.Finding{Property: "C12", Case: i,
					What:  fmt.Sprintf("signing the same image twice with the deterministic option and a fixed signature time gives different bytes (first at %d)", firstDiffBytes(sc0.After, sc1.After)),
					Input: desc})
			}
		}
		// requests the signer must refuse, and what it leaves behind
		if i%3 == 0 {
			bad := cfg
			switch r.Intn(4) {
			case 0:
				bad.Groups = append([]uint32{}, 0x0ffffffd)
			case 1:
				bad.Objects = [][]uint32{{9999}}
			case 2:
				bad.Groups, bad.Objects = append(append([]uint32{}, info.Groups...), 0x0ffffffd), nil
			case 3:
				bad.Objects = [][]uint32{{1, 0}}
			}
			if sc := h.RunSign(k, 5000+i, before, bad); sc != nil {
				scases = append(scases, sc)
				s.OpKinds["sign-refused"]++
			}
		}
		if err := h.SignOnHandle(k, f, cfg); err != nil {
			s.Oracle = append(s.Oracle, h.Finding{Property: "C06", Case: i, What: "signing fails: " + err.Error(), Input: desc})
			continue
		}
		after := bytes.Clone(b.Bytes())
		s.OracleRuns["deterministic-signing-leaves-no-clock"]++
		s.Oracle = append(s.Oracle, signTimes(i, before, after, cfg, desc)...)
		s.OracleRuns["sign-only-appends"]++
		s.Oracle = append(s.Oracle, appendOnly(i, before, after, cfg, info, desc)...)
		vo := cfg.VOpts()
		// several object selections on one group: each signature covers its own subset (F13)
		class := ""
		if len(cfg.Objects) > 1 {
			class = "F13"
		}
		if err := h.VerifyOnHandle(k, f, vo); err != nil {
			s.Oracle = append(s.Oracle, h.Finding{Property: "C06", Case: i, Class: class, What: "verification on the signing handle fails: " + err.Error(), Input: desc})
		}
		expectVerifiedC(s, addCase(after, nil, vo, desc+"; reloaded"), desc+"; reloaded", class)

		// signed groups, for narrowing after further edits
		signed := cfg.Groups
		if len(cfg.Groups) == 0 && len(cfg.Objects) == 0 {
			signed = info.Groups
		}
		// co-sign by another party
		if r.Chance(1, 2) {
			cfg2 := cfg
			if r.Chance(1, 2) {
				cfg2.Scheme, cfg2.DSSEKeys, cfg2.Entity = "pgp", nil, (cfg.Entity+1)%len(k.Entities)
			} else {
				cfg2.Scheme, cfg2.DSSEKeys = "dsse", []string{h.Pick(r, k.Names)}
			}
			b2 := sif.NewBuffer(bytes.Clone(after))
			f2, _ := sif.LoadContainer(b2, sif.OptLoadWithCloseOnUnload(false))
			d2 := desc + "; co-signed {" + cfg2.String() + "}"
			if sc := h.RunSign(k, 3000+i, after, cfg2); sc != nil {
				scases = append(scases, sc)
			}
			if err := h.SignOnHandle(k, f2, cfg2); err != nil {
				s.Oracle = append(s.Oracle, h.Finding{Property: "C06", Case: i, What: "co-signing fails: " + err.Error(), Input: d2})
			} else {
				vo2 := vo
				v2 := cfg2.VOpts()
				if v2.PGPEntities != nil {
					vo2.PGPEntities = append(append([]int{}, vo.PGPEntities...), v2.PGPEntities...)
				}
				if v2.DSSEKeys != nil {
					vo2.DSSEKeys = append(append([]string{}, vo.DSSEKeys...), v2.DSSEKeys...)
				}
				expectVerifiedC(s, addCase(bytes.Clone(b2.Bytes()), nil, vo2, d2), d2, class)
			}
		}
		// further objects added to / deleted from other groups
		if len(signed) > 0 && len(cfg.Objects) == 0 {
			nv := vo
			nv.Groups = signed
			b3 := sif.NewBuffer(bytes.Clone(after))
			f3, _ := sif.LoadContainer(b3, sif.OptLoadWithCloseOnUnload(false))
			di, _ := sif.NewDescriptorInput(sif.DataGeneric, bytes.NewReader([]byte("later")), sif.OptGroupID(0x0ffffff0))
			if err := f3.AddObject(di, sif.OptAddDeterministic()); err == nil {
				d3 := desc + "; object added to another group afterwards"
				expectVerified(s, addCase(bytes.Clone(b3.Bytes()), nil, nv, d3), d3)
			}
			si, _ := h.DecodeImage(after)
			sg := u32set(signed)
			for _, d := range si.Descs {
				if d.Used && d.GroupID() != 0 && !sg[d.GroupID()] {
					if err := f3.DeleteObject(d.ID, sif.OptDeleteDeterministic(), sif.OptDeleteZero(true)); err == nil {
						d3 := fmt.Sprintf("%s; object %d of another group deleted afterwards", desc, d.ID)
						expectVerified(s, addCase(bytes.Clone(b3.Bytes()), nil, nv, d3), d3)
					}
					break
				}
			}
			// other images presenting the same protected view
			g := h.Pick(r, signed)
			for _, m := range h.ViewKeeping(r, after, g) {
				nv := vo
				nv.Groups = []uint32{g}
				if bytes.Contains([]byte(m.What), []byte("renamed")) {
					nv.Groups = []uint32{0x0abcdef0}
				}
				d4 := desc + "; " + m.What
				expectVerified(s, addCase(m.Img, nil, nv, d4), d4)
			}
		}
	}
}

// reproducibleScheme: the signature algorithm itself is deterministic.
func reproducibleScheme(k *h.Keys, cfg h.SignConfig) bool {
	if cfg.Scheme == "pgp" {
		switch k.Entities[cfg.Entity].PrimaryKey.PubKeyAlgo {
		case packet.PubKeyAlgoRSA, packet.PubKeyAlgoEdDSA, packet.PubKeyAlgoEd25519:
			return true
		}
		return false
	}
	for _, n := range cfg.DSSEKeys {
		if !strings.HasPrefix(n, "ed25519") {
			return false
		}
	}
	return len(cfg.DSSEKeys) > 0
}

// signTimes (C12): with OptSignDeterministic every time field signing writes is the zero time
// and a deterministic image stays deterministic; with OptSignWithTime alone the given time.
func signTimes(id int, before, after []byte, cfg h.SignConfig, desc string) []h.Finding {
	var out []h.Finding
	bi, err1 := h.DecodeImage(before)
	ai, err2 := h.DecodeImage(after)
	if err1 != nil || err2 != nil || len(bi.Descs) != len(ai.Descs) {
		return nil
	}
	want := int64(h.ZeroTime)
	switch cfg.TimeMode {
	case 1:
		want = 1504657553
	case 2:
		// no option: only a deterministic image keeps the clock out
		if bi.H.ID != [16]byte{} || bi.H.Ctime != h.ZeroTime || bi.H.Mtime != h.ZeroTime {
			return nil
		}
	}
	bad := func(format string, a ...any) {
		out = append(out, h.Finding{Property: "C12", Case: id, What: fmt.Sprintf(format, a...), Input: desc})
	}
	if ai.H.Mtime != want {
		bad("header modification time after signing is %d, expected %d", ai.H.Mtime, want)
	}
	if ai.H.Ctime != bi.H.Ctime || ai.H.ID != bi.H.ID {
		bad("signing changed the header creation time or ID")
	}
	for i, d := range ai.Descs {
		if d.Used && !bi.Descs[i].Used && (d.Ctime != want || d.Mtime != want) {
			bad("signature object %d has times %d/%d, expected %d", d.ID, d.Ctime, d.Mtime, want)
		}
	}
	return out
}

// appendOnly: signing only appends ungrouped signature objects linked to the signed groups.
func appendOnly(id int, before, after []byte, cfg h.SignConfig, info h.GroupedInfo, desc string) []h.Finding {
	var out []h.Finding
	bad := func(format string, a ...any) {
		out = append(out, h.Finding{Property: "C06", Case: id, What: fmt.Sprintf(format, a...), Input: desc})
	}
	bi, err1 := h.DecodeImage(before)
	ai, err2 := h.DecodeImage(after)
	if err1 != nil || err2 != nil || len(bi.Descs) != len(ai.Descs) {
		bad("image does not decode after signing")
		return out
	}
	want := map[uint32]int{}
	switch {
	case len(cfg.Groups) == 0 && len(cfg.Objects) == 0:
		for _, g := range info.Groups {
			want[g]++
		}
	default:
		for _, g := range cfg.Groups {
			want[g]++
		}
		for _, ids := range cfg.Objects {
			gs := map[uint32]bool{}
			for _, oid := range ids {
				for _, d := range bi.Descs {
					if d.Used && d.ID == oid {
						gs[d.GroupID()] = true
					}
				}
			}
			for g := range gs {
				want[g]++
			}
		}
	}
	got := map[uint32]int{}
	for i, d := range bi.Descs {
		a := ai.Descs[i]
		if d.Used {
			if !bytes.Equal(h.EncodeDesc(d), h.EncodeDesc(a)) {
				bad("descriptor %d changed by signing", d.ID)
			}
			if !bytes.Equal(h.SectionBytes(before, d), h.SectionBytes(after, a)) {
				bad("content of object %d changed by signing", d.ID)
			}
			continue
		}
		if !a.Used {
			continue
		}
		if a.Type != h.DataSignature || a.GroupID() != 0 || !a.LinkIsGroup() {
			bad("signing added object %d which is not an ungrouped signature linked to a group", a.ID)
			continue
		}
		got[a.LinkID()]++
	}
	for g, n := range want {
		if got[g] != n {
			bad("signing added %d signatures for group %d, expected %d", got[g], g, n)
		}
	}
	for g := range got {
		if want[g] == 0 {
			bad("signing added a signature for group %d which was not requested", g)
		}
	}
	return out
}

// trustFindings: C07 for one case. signers: what really produced each signature is recomputed
// with every key the harness has.
func trustFindings(k *h.Keys, c *h.VCase, desc string) []h.Finding {
	var out []h.Finding
	if !c.Obs.Accepted() || c.Opts.IgnoreErrors {
		return nil
	}
	bad := func(format string, a ...any) {
		out = append(out, h.Finding{Property: "C07", Case: c.ID, What: fmt.Sprintf(format, a...), Input: desc})
	}
	sigs := map[uint32]h.SDesc{}
	for _, d := range h.SigDescs(c.Image) {
		if _, dup := sigs[d.ID]; !dup {
			sigs[d.ID] = d
		}
	}
	trustedKeys := map[int]bool{}
	for _, n := range c.Opts.DSSEKeys {
		trustedKeys[k.KeyIndex(n)] = true
	}
	trustedEnt := map[string]bool{}
	for _, e := range c.Opts.PGPEntities {
		trustedEnt[string(k.Entities[e].PrimaryKey.Fingerprint)] = true
	}
	for _, r := range c.Obs.Results {
		d, ok := sigs[r.Sig]
		if !ok {
			bad("result for signature %d which does not exist", r.Sig)
			continue
		}
		realKeys, realEnt := h.RealSigners(k, h.SectionBytes(c.Image, d), h.HashTypeOf(d))
		if r.Entity == nil && len(r.Keys) == 0 {
			bad("signature %d accepted without any signer identity", r.Sig)
		}
		if r.Entity != nil {
			if !trustedEnt[string(r.Entity)] {
				bad("signature %d accepted through entity %x which the caller did not supply", r.Sig, r.Entity)
			}
			if !bytes.Equal(r.Entity, realEnt) {
				bad("signature %d reports entity %x but was made by %x", r.Sig, r.Entity, realEnt)
			}
			if !bytes.Equal(h.FingerprintOf(d), r.Entity) {
				bad("signature %d: descriptor names %x, signer is %x", r.Sig, h.FingerprintOf(d), r.Entity)
			}
		}
		want := map[int]bool{}
		for _, x := range realKeys {
			if trustedKeys[x] {
				want[x] = true
			}
		}
		got := map[int]bool{}
		for _, x := range r.Keys {
			got[x] = true
			if !trustedKeys[x] {
				bad("signature %d accepted through key %d which the caller did not supply", r.Sig, x)
			}
		}
		if r.Entity == nil && (len(got) != len(want) || len(got) != len(r.Keys)) {
			bad("signature %d reports keys %v, keys that validated it are %v", r.Sig, r.Keys, want)
		}
		for x := range got {
			if !want[x] {
				bad("signature %d reports key %d which did not validate it", r.Sig, x)
			}
		}
	}
	// never skipped: every signature attached to a verified group was examined
	si, _ := h.DecodeImage(c.Image)
	if len(c.Opts.Groups) == 0 && len(c.Opts.Objects) == 0 && !c.Opts.Legacy && !c.Opts.LegacyAll {
		seen := map[uint32]bool{}
		for _, r := range c.Obs.Results {
			seen[r.Sig] = true
		}
		groups := map[uint32]bool{}
		for _, d := range si.Descs {
			if d.Used && d.GroupID() != 0 {
				groups[d.GroupID()] = true
			}
		}
		for _, d := range si.Descs {
			if d.Used && d.Type == h.DataSignature && d.LinkIsGroup() && groups[d.LinkID()] && !seen[d.ID] {
				legacy := false
				for _, f := range c.Sigs {
					if bytes.Equal(f.Content, h.SectionBytes(c.Image, d)) {
						legacy = f.Legacy
					}
				}
				if !legacy {
					bad("signature %d attached to group %d was skipped", d.ID, d.LinkID())
				}
			}
		}
	}
	return out
}

func subsetsOf(r *h.Rng, names []string, max int) []string {
	var out []string
	for n := r.Intn(max + 1); n > 0; n-- {
		x := h.Pick(r, names)
		dup := false
		for _, y := range out {
			dup = dup || x == y
		}
		if !dup {
			out = append(out, x)
		}
	}
	return out
}

func runKeys(s *summary, k *h.Keys, root *h.Rng, n int, thorough bool, addCase addCaseFn) {
	check := func(c *h.VCase, desc string, mustFail bool) {
		if c == nil {
			return
		}
		s.OracleRuns["trust-only-from-supplied-keys"]++
		s.Oracle = append(s.Oracle, trustFindings(k, c, desc)...)
		if c.Obs.Accepted() {
			s.OpKinds["accepted"]++
		} else {
			s.OpKinds["rejected"]++
		}
		if mustFail && c.Obs.Accepted() {
			s.Oracle = append(s.Oracle, h.Finding{Property: "C07", Case: c.ID, What: "verification succeeds although it must not", Input: desc})
		}
	}
	allEnts := []int{0, 1, 2}
	for i := 0; i < n; i++ {
		r := root.Fork()
		switch i % 6 {
		case 0, 1: // DSSE (signing set, trusted set) pairs
			S := subsetsOf(r, k.Names, 3)
			if len(S) == 0 {
				S = []string{h.Pick(r, k.Names)}
			}
			spec := h.BaseSpec{Scheme: "dsse", DSSEKeys: S}
			img := signedBase(k, r, spec)
			for j := 0; j < 4; j++ {
				var T []string
				switch j {
				case 0:
					T = nil
				case 1:
					T = append([]string{}, S...) // exactly the signers
				case 2:
					T = append(subsetsOf(r, k.Names, 3), S[r.Intn(len(S))]) // overlapping / superset
					T = dedup(T)
				default:
					for _, x := range subsetsOf(r, k.Names, 3) { // disjoint
						in := false
						for _, y := range S {
							in = in || x == y
						}
						if !in {
							T = append(T, x)
						}
					}
					if T == nil {
						T = []string{}
					}
				}
				vo := h.VOpts{DSSEKeys: T}
				if j == 0 && r.Chance(1, 2) {
					vo.PGPEntities = allEnts // key material for the other scheme only
				}
				inter := false
				for _, x := range T {
					for _, y := range S {
						inter = inter || x == y
					}
				}
				desc := fmt.Sprintf("dsse signers %v, trusted %v (pgp ring %v)", S, T, vo.PGPEntities)
				c := addCase(img, nil, vo, desc)
				check(c, desc, !inter)
				if c != nil && inter && !c.Obs.Accepted() {
					s.Oracle = append(s.Oracle, h.Finding{Property: "C06", Case: c.ID, What: "a trusted signer's signature is rejected", Input: desc})
				}
			}
		case 2: // PGP signer / key ring pairs
			e := r.Intn(3)
			img := signedBase(k, r, h.BaseSpec{Scheme: "pgp", Entity: e})
			for _, R := range [][]int{nil, {e}, {(e + 1) % 3}, {(e + 1) % 3, (e + 2) % 3}, {0, 1, 2}, {}} {
				vo := h.VOpts{PGPEntities: R}
				if R == nil && r.Chance(1, 2) {
					vo.DSSEKeys = []string{"rsa"}
				}
				in := false
				for _, x := range R {
					in = in || x == e
				}
				desc := fmt.Sprintf("pgp signer %d, key ring %v (dsse keys %v)", e, R, vo.DSSEKeys)
				c := addCase(img, nil, vo, desc)
				check(c, desc, !in)
				if c != nil && in && !c.Obs.Accepted() {
					s.Oracle = append(s.Oracle, h.Finding{Property: "C06", Case: c.ID, What: "a trusted signer's signature is rejected", Input: desc})
				}
			}
		case 3: // every kind of fingerprint value in the descriptor of a PGP signature
			e := r.Intn(3)
			img := signedBase(k, r, h.BaseSpec{Scheme: "pgp", Entity: e})
			sd := h.SigDescs(img)[0]
			si, _ := h.DecodeImage(img)
			slot := 0
			for j, d := range si.Descs {
				if d.Used && d.ID == sd.ID {
					slot = j
				}
			}
			o := int(si.H.DescOff) + slot*h.DescSize + 201 + 4
			fps := [][]byte{make([]byte, 20), h.GenContent(r, 20)}
			for x := range k.Entities {
				fps = append(fps, k.Entities[x].PrimaryKey.Fingerprint)
			}
			real := k.Entities[e].PrimaryKey.Fingerprint
			for pos := 0; pos < 20; pos += 1 + r.Intn(4) {
				fp := bytes.Clone(real)
				fp[pos] ^= byte(1 << uint(r.Intn(8)))
				fps = append(fps, fp)
			}
			for _, fp := range fps {
				m := bytes.Clone(img)
				copy(m[o:o+20], fp[:20])
				desc := fmt.Sprintf("pgp signer %d (%x), descriptor fingerprint rewritten to %x, all entities trusted", e, real, fp)
				check(addCase(m, img, h.VOpts{PGPEntities: allEnts}, desc), desc, !bytes.Equal(fp[:20], real))
				for _, vo := range []h.VOpts{{PGPEntities: allEnts, Objects: []uint32{1}}, {PGPEntities: allEnts, Groups: []uint32{1}}} {
					d2 := fmt.Sprintf("%s; request groups=%v objects=%v", desc, vo.Groups, vo.Objects)
					check(addCase(m, img, vo, d2), d2, !bytes.Equal(fp[:20], real))
				}
			}
			// the same for the second of two signatures over the same group (the same signed
			// metadata): PGP after PGP, PGP after DSSE
			e2 := (e + 1) % 3
			for _, spec := range []h.BaseSpec{
				{Scheme: "pgp", Entity: e, CoSign: &h.BaseSpec{Scheme: "pgp", Entity: e2}},
				{Scheme: "dsse", DSSEKeys: []string{h.Pick(r, k.Names)}, CoSign: &h.BaseSpec{Scheme: "pgp", Entity: e2}},
			} {
				img := signedBase(k, r, spec)
				sds := h.SigDescs(img)
				if len(sds) < 2 {
					continue
				}
				sd := sds[len(sds)-1]
				si, _ := h.DecodeImage(img)
				for j, d := range si.Descs {
					if d.Used && d.ID == sd.ID {
						o := int(si.H.DescOff) + j*h.DescSize + 201 + 4
						real2 := k.Entities[e2].PrimaryKey.Fingerprint
						for _, fp := range [][]byte{k.Entities[e].PrimaryKey.Fingerprint, k.Entities[(e+2)%3].PrimaryKey.Fingerprint, h.GenContent(r, 20), make([]byte, 20)} {
							m := bytes.Clone(img)
							copy(m[o:o+20], fp[:20])
							vo := h.VOptsFor(spec)
							vo.PGPEntities = allEnts
							desc := fmt.Sprintf("{%s}: descriptor fingerprint of the second signature (by entity %d) rewritten to %x, all entities trusted", spec.String(), e2, fp)
							check(addCase(m, img, vo, desc), desc, !bytes.Equal(fp[:20], real2))
						}
					}
				}
			}
			// two groups signed by different DSSE keys, both trusted: each signature reports its own signer
			ka, kb := k.Names[r.Intn(len(k.Names))], k.Names[r.Intn(len(k.Names))]
			two := h.BaseSpec{Scheme: "dsse", DSSEKeys: []string{ka}, TwoGroups: true, Groups: []uint32{1},
				CoSign: &h.BaseSpec{Scheme: "dsse", DSSEKeys: []string{kb}, Groups: []uint32{2}}}
			img2 := signedBase(k, r, two)
			desc := fmt.Sprintf("group 1 signed by %s, group 2 by %s, both trusted", ka, kb)
			check(addCase(img2, nil, h.VOpts{DSSEKeys: dedup([]string{ka, kb})}, desc), desc, false)
		case 4: // both schemes on one group, key material for one or both
			spec := h.BaseSpec{Scheme: "pgp", Entity: r.Intn(3), CoSign: &h.BaseSpec{Scheme: "dsse", DSSEKeys: []string{h.Pick(r, k.Names)}}}
			img := signedBase(k, r, spec)
			full := h.VOptsFor(spec)
			for j, vo := range []h.VOpts{full, {PGPEntities: full.PGPEntities}, {DSSEKeys: full.DSSEKeys}, {}} {
				desc := fmt.Sprintf("pgp+dsse signatures on one group {%s}; key material: pgp %v dsse %v", spec.String(), vo.PGPEntities, vo.DSSEKeys)
				check(addCase(img, nil, vo, desc), desc, j != 0)
			}
		case 5: // envelope and format variations next to a valid signature
			name := h.Pick(r, k.Names)
			spec := h.BaseSpec{Scheme: "dsse", DSSEKeys: []string{name}}
			img := signedBase(k, r, spec)
			sd := h.SigDescs(img)[0]
			payload := h.PayloadOf(h.SectionBytes(img, sd))
			variants := []struct {
				what    string
				content []byte
			}{
				{"DSSE envelope of a foreign payload type made by the trusted key", h.DSSEEnvelope(k, []string{name}, "application/vnd.example+json", payload)},
				{"DSSE envelope of an empty payload type made by the trusted key", h.DSSEEnvelope(k, []string{name}, "", payload)},
				{"unrecognised signature format", []byte("-----BEGIN SOMETHING-----\nabc\n")},
				{"empty signature object", nil},
				{"JSON that is no envelope", []byte(`{"a":1}`)},
				{"envelope by an untrusted key", h.DSSEEnvelope(k, []string{otherName(k, name)}, h.MediaType, payload)},
				{"clear-signed metadata by an entity outside the key ring", h.ClearSign(k, 2, payload)},
			}
			for _, v := range variants {
				for _, alone := range []bool{false, true} {
					b := sif.NewBuffer(bytes.Clone(img))
					if alone {
						f, _ := sif.LoadContainer(b, sif.OptLoadWithCloseOnUnload(false))
						if err := f.DeleteObject(sd.ID, sif.OptDeleteDeterministic()); err != nil {
							panic(err)
						}
					}
					if err := h.AddRawSignature(b, v.content, 1, 0, crypto.SHA256, nil, 0); err != nil {
						continue
					}
					vo := h.VOpts{DSSEKeys: []string{name}, PGPEntities: []int{0, 1}}
					desc := fmt.Sprintf("%s, linked to group 1 (valid signature removed: %v)", v.what, alone)
					check(addCase(bytes.Clone(b.Bytes()), nil, vo, desc), desc, true)
				}
			}
		}
	}
}

func dedup(xs []string) []string {
	var out []string
	for _, x := range xs {
		dup := false
		for _, y := range out {
			dup = dup || x == y
		}
		if !dup {
			out = append(out, x)
		}
	}
	return out
}

func otherName(k *h.Keys, name string) string {
	for _, n := range k.Names {
		if n != name {
			return n
		}
	}
	return name
}

// ---------------------------------------------------------------------------------------------
// legacy signatures (C16)

var hashByType = map[int]crypto.Hash{1: crypto.SHA256, 2: crypto.SHA384, 3: crypto.SHA512}

type legacyBase struct {
	desc       string
	img        []byte
	ents       []int
	hasLegacy  bool
	hasCurrent bool
}

func legacyBases(k *h.Keys, r *h.Rng) []legacyBase {
	var out []legacyBase
	for _, n := range []string{"one-group-signed-legacy.sif", "one-group-signed-legacy-all.sif", "one-group-signed-legacy-group.sif",
		"two-groups-signed-legacy.sif", "two-groups-signed-legacy-all.sif", "two-groups-signed-legacy-group.sif"} {
		b, err := os.ReadFile(filepath.Join("/repo/test/images", n))
		if err != nil {
			continue
		}
		out = append(out, legacyBase{"shipped " + n, b, []int{0}, true, false})
	}
	for v := 0; v < 4; v++ {
		two := v%2 == 1
		b := h.BuildUnsigned(r, two)
		e := r.Intn(3)
		desc := fmt.Sprintf("generated (two groups: %v), legacy signatures by entity %d:", two, e)
		fp := k.Entities[e].PrimaryKey.Fingerprint
		current := false
		if v >= 2 { // mixed with a current-format signature
			if err := h.SignImage(k, b, h.BaseSpec{Scheme: "pgp", Entity: e}); err != nil {
				panic(err)
			}
			current = true
			desc += " current-format signature(s);"
		}
		img := bytes.Clone(b.Bytes())
		si, _ := h.DecodeImage(img)
		ht := h.Pick(r, []int{1, 2, 3})
		groups := []uint32{1}
		if two {
			groups = append(groups, 2)
		}
		for _, g := range groups {
			if v == 0 && g == 2 || v == 1 {
				continue
			}
			sig := h.ClearSign(k, e, h.LegacyPlaintext(hashByType[ht], h.GroupData(img, g), r.Chance(1, 2)))
			if err := h.AddRawSignature(b, sig, g, 0, hashByType[ht], fp, 0); err != nil {
				panic(err)
			}
			desc += fmt.Sprintf(" group %d;", g)
		}
		for _, d := range si.Descs {
			if d.Used && d.Type != h.DataSignature && (v != 1 || d.ID%2 == 1) {
				sig := h.ClearSign(k, e, h.LegacyPlaintext(hashByType[ht], h.SectionBytes(img, d), r.Chance(1, 2)))
				grp := uint32(0)
				if v == 1 { // as in the shipped images: object signatures are members of the group
					grp = d.GroupID()
				}
				if err := h.AddRawSignature(b, sig, 0, d.ID, hashByType[ht], fp, grp); err != nil {
					panic(err)
				}
				desc += fmt.Sprintf(" object %d;", d.ID)
			}
		}
		out = append(out, legacyBase{desc, bytes.Clone(b.Bytes()), []int{e}, true, current})
	}
	// current-format only
	spec := h.BaseSpec{Scheme: "pgp", Entity: 0, TwoGroups: true}
	out = append(out, legacyBase{"generated, current-format signatures only", signedBase(k, r, spec), []int{0}, false, true})
	return out
}

// boundaryShifts moves the boundary between two objects that are adjacent in the file.
func boundaryShifts(img []byte) []h.Mutation {
	si, err := h.DecodeImage(img)
	if err != nil {
		return nil
	}
	var ms []h.Mutation
	for i, a := range si.Descs {
		for j, b := range si.Descs {
			if i == j || !a.Used || !b.Used || a.Type == h.DataSignature || b.Type == h.DataSignature ||
				a.GroupID() != b.GroupID() || a.Size < 2 || a.Off+a.Size != b.Off || j != i+1 {
				continue
			}
			m := bytes.Clone(img)
			oa := int(si.H.DescOff) + i*h.DescSize
			ob := int(si.H.DescOff) + j*h.DescSize
			putLE64(m, oa+25, uint64(a.Size-1))
			putLE64(m, ob+17, uint64(b.Off-1))
			putLE64(m, ob+25, uint64(b.Size+1))
			ms = append(ms, h.Mutation{What: fmt.Sprintf("last byte of object %d moved to the front of object %d", a.ID, b.ID), Img: m, Class: "F9"})
		}
	}
	return ms
}

// forgedLegacy: an object's content is altered and its legacy signature replaced by a message
// naming the new digest, carrying the signature block of another object's genuine signature.
func forgedLegacy(img []byte) []h.Mutation {
	si, err := h.DecodeImage(img)
	if err != nil {
		return nil
	}
	marker := []byte("-----BEGIN PGP SIGNATURE-----")
	tag := []byte("SIFHASH:\n")
	var sigs []h.SDesc
	for _, d := range si.Descs {
		if d.Used && d.Type == h.DataSignature && !d.LinkIsGroup() {
			sigs = append(sigs, d)
		}
	}
	var ms []h.Mutation
	for _, sa := range sigs {
		for _, sb := range sigs {
			if sa.LinkID() >= sb.LinkID() || len(ms) >= 2 {
				continue
			}
			var obj *h.SDesc
			for i, d := range si.Descs {
				if d.Used && d.ID == sb.LinkID() && d.Type != h.DataSignature && d.Size > 0 {
					obj = &si.Descs[i]
				}
			}
			ca, cb := h.SectionBytes(img, sa), h.SectionBytes(img, sb)
			ia, ib, it := bytes.Index(ca, marker), bytes.Index(cb, marker), bytes.Index(cb, tag)
			ht, known := hashByType[int(h.HashTypeOf(sb))]
			if obj == nil || ia < 0 || ib < 0 || it < 0 || !known || !ht.Available() {
				continue
			}
			m := bytes.Clone(img)
			m[obj.Off] ^= 1
			hh := ht.New()
			hh.Write(m[obj.Off : obj.Off+obj.Size])
			hexd := []byte(fmt.Sprintf("%x", hh.Sum(nil)))
			p := it + len(tag)
			if p+len(hexd) > ib {
				continue
			}
			forged := append(append(append(bytes.Clone(cb[:p]), hexd...), cb[p+len(hexd):ib]...), ca[ia:]...)
			if len(forged) != len(cb) {
				continue
			}
			copy(m[sb.Off:], forged)
			ms = append(ms, h.Mutation{What: fmt.Sprintf("object %d altered; its signature %d now names the new digest under the signature block of signature %d", obj.ID, sb.ID, sa.ID), Img: m})
		}
	}
	return ms
}

func putLE64(b []byte, off int, v uint64) {
	for i := 0; i < 8; i++ {
		b[off+i] = byte(v >> (8 * uint(i)))
	}
}

func legacyModes(r *h.Rng, ents []int) []h.VOpts {
	all := []int{0, 1, 2}
	_ = ents
	return []h.VOpts{
		{PGPEntities: all},
		{PGPEntities: all, Legacy: true},
		{PGPEntities: all, LegacyAll: true},
		{PGPEntities: all, Legacy: true, Groups: []uint32{1}},
		{PGPEntities: all, Legacy: true, Objects: []uint32{uint32(1 + r.Intn(3))}},
		{PGPEntities: all, Groups: []uint32{1}},
		{PGPEntities: all, Objects: []uint32{1}},
		{PGPEntities: all, Legacy: true, Groups: []uint32{2}, Objects: []uint32{1}},
		{PGPEntities: all, LegacyAll: true, Objects: []uint32{1}},
		{PGPEntities: all, LegacyAll: true, Groups: []uint32{1}},
	}
}

func legacyFindings(k *h.Keys, base []byte, c *h.VCase, desc, class string) []h.Finding {
	if c == nil || !c.Obs.Accepted() || c.Opts.IgnoreErrors {
		return nil
	}
	var out []h.Finding
	bad := func(format string, a ...any) {
		out = append(out, h.Finding{Property: "C16", Case: c.ID, Class: class, What: fmt.Sprintf(format, a...), Input: desc})
	}
	legacyMode := c.Opts.Legacy || c.Opts.LegacyAll
	sigs := map[uint32]h.SDesc{}
	for _, d := range h.SigDescs(c.Image) {
		if _, dup := sigs[d.ID]; !dup {
			sigs[d.ID] = d
		}
	}
	if len(c.Obs.Results) == 0 {
		bad("verification succeeded without examining any signature")
	}
	bi, _ := h.DecodeImage(base)
	if legacyMode {
		// every covered object - the named objects, the named groups, or with no narrowing all
		// grouped non-signature objects - is under a signature that was examined
		covered := map[int64]bool{}
		for _, r := range c.Obs.Results {
			for _, rg := range r.Ranges {
				covered[rg[0]] = true
			}
		}
		named := func(d h.SDesc) bool {
			if c.Opts.LegacyAll || len(c.Opts.Groups) == 0 && len(c.Opts.Objects) == 0 {
				// OptVerifyLegacyAll adds every grouped object to whatever else is named
				return d.GroupID() != 0
			}
			for _, g := range c.Opts.Groups {
				if d.GroupID() == g {
					return true
				}
			}
			for _, id := range c.Opts.Objects {
				if d.ID == id {
					return true
				}
			}
			return false
		}
		mi, _ := h.DecodeImage(c.Image)
		for _, d := range mi.Descs {
			if d.Used && d.Type != h.DataSignature && named(d) && !covered[d.Off] {
				bad("legacy verification (all=%v groups=%v objects=%v) succeeded without a signature over object %d of group %d", c.Opts.LegacyAll, c.Opts.Groups, c.Opts.Objects, d.ID, d.GroupID())
			}
		}
	}
	for _, r := range c.Obs.Results {
		d := sigs[r.Sig]
		for _, x := range h.SigDescs(c.Image) {
			if x.ID == r.Sig && x.Off == r.SigOff {
				d = x
			}
		}
		isLegacy := false
		for _, f := range c.Sigs {
			if bytes.Equal(f.Content, h.SectionBytes(c.Image, d)) {
				isLegacy = f.Legacy
			}
		}
		if isLegacy != legacyMode {
			bad("signature %d (legacy=%v) honoured in a request with legacy=%v", r.Sig, isLegacy, legacyMode)
		}
		if !legacyMode {
			continue
		}
		_, ent := h.RealSigners(k, h.SectionBytes(c.Image, d), h.HashTypeOf(d))
		if !bytes.Equal(h.FingerprintOf(d), ent) || ent == nil {
			bad("legacy signature %d accepted: descriptor fingerprint %x, signer %x", r.Sig, h.FingerprintOf(d), ent)
		}
		// the contents of the covered objects, one by one, are what the signature was made over
		var cur [][]byte
		for _, rg := range r.Ranges {
			end := rg[0] + rg[1]
			if rg[0] < 0 || end > int64(len(c.Image)) || end < rg[0] {
				end = int64(len(c.Image))
			}
			start := rg[0]
			if start < 0 || start > int64(len(c.Image)) {
				start, end = 0, 0
			}
			cur = append(cur, c.Image[start:end])
		}
		var orig [][]byte
		resolved := false
		for _, bs := range bi.Descs {
			// the signature is identified by where its bytes are (IDs, sizes and links are not protected)
			if !bs.Used || bs.Type != h.DataSignature || bs.Off != r.SigOff {
				continue
			}
			resolved = true
			for _, x := range bi.Descs {
				if !x.Used || x.Type == h.DataSignature {
					continue
				}
				if bs.LinkIsGroup() && x.GroupID() == bs.LinkID() || !bs.LinkIsGroup() && x.ID == bs.Link {
					orig = append(orig, h.SectionBytes(base, x))
				}
			}
			break
		}
		// each covered object's content is one of the signed contents (as multisets: the table
		// order of equal-content or empty objects is not protected); the digest is over the
		// concatenation, so a moved boundary with the same concatenation is the known class F9
		count := map[string]int{}
		for _, x := range orig {
			count[string(x)]++
		}
		for _, x := range cur {
			count[string(x)]--
		}
		same := len(cur) == len(orig)
		for _, n := range count {
			if n != 0 {
				same = false
			}
		}
		if resolved && !same {
			if bytes.Equal(bytes.Join(cur, nil), bytes.Join(orig, nil)) {
				out = append(out, h.Finding{Property: "C16", Case: c.ID, Class: "F9",
					What: fmt.Sprintf("legacy verification accepted objects %v whose contents, object by object, are not what was signed (the concatenation is)", r.Verified), Input: desc})
			} else {
				bad("legacy verification accepted objects %v whose contents are not what was signed", r.Verified)
			}
		}
	}
	return out
}

func runLegacy(s *summary, k *h.Keys, root *h.Rng, n int, thorough bool, addCase addCaseFn) {
	r0 := root.Fork()
	kindsDone := map[int]bool{}
	for bi, lb := range legacyBases(k, r0) {
		r := root.Fork()
		for mi, vo := range legacyModes(r, lb.ents) {
			desc := fmt.Sprintf("base %d {%s}; mode %+v", bi, lb.desc, vo)
			c := addCase(lb.img, nil, vo, desc)
			if c == nil {
				continue
			}
			s.OracleRuns["legacy-and-current-not-confused"]++
			s.Oracle = append(s.Oracle, legacyFindings(k, lb.img, c, desc, "")...)
			legacyMode := vo.Legacy || vo.LegacyAll
			if c.Obs.Accepted() {
				s.OpKinds[fmt.Sprintf("accepted-unmodified-legacy=%v", legacyMode)]++
				if legacyMode && !lb.hasLegacy || !legacyMode && !lb.hasCurrent {
					s.Oracle = append(s.Oracle, h.Finding{Property: "C16", Case: c.ID,
						What: fmt.Sprintf("request with legacy=%v accepted an image that carries no signature of that kind", legacyMode), Input: desc})
				}
			}
			if !legacyMode || !c.Obs.Accepted() {
				continue
			}
			ms := append(h.BitFlips(r, lb.img, 1), h.Catalogue(r, lb.img)...)
			// the fingerprint recorded on a signature is always tried: one bit, and blanked
			var fpm []h.Mutation
			for _, m := range ms {
				if strings.Contains(m.What, "fingerprint[19]^=1") || strings.Contains(m.What, "fingerprint:=0") {
					fpm = append(fpm, m)
				}
			}
			// one instance of every kind of catalogue rewrite, once per base image (under the first
			// legacy mode that accepts it)
			var kindsOnce []h.Mutation
			if !kindsDone[bi] {
				kindsDone[bi] = true
				si, _ := h.DecodeImage(lb.img)
				byKind := map[string][]h.Mutation{}
				var kinds []string
				for _, m := range ms {
					var di int
					if k, _ := fmt.Sscanf(m.What, "desc%d ", &di); k == 1 && di < len(si.Descs) && si.Descs[di].Used {
						rest := m.What[strings.Index(m.What, " ")+1:]
						if si.Descs[di].Type == h.DataSignature {
							rest = "signature " + rest
						}
						if byKind[rest] == nil {
							kinds = append(kinds, rest)
						}
						byKind[rest] = append(byKind[rest], m)
					}
				}
				for _, kd := range kinds {
					kindsOnce = append(kindsOnce, h.Pick(r, byKind[kd]))
				}
				s.OpKinds["catalogue-kinds-always-tried"] += len(kinds)
			}
			ms = append(append(sample(r, ms, n), sample(r, fpm, 8)...), kindsOnce...)
			ms = append(ms, boundaryShifts(lb.img)...)
			ms = append(ms, forgedLegacy(lb.img)...)
			for _, m := range ms {
				d2 := desc + "; " + m.What
				c2 := addCase(m.Img, lb.img, vo, d2)
				s.OracleRuns["legacy-accepted-implies-content-as-signed"]++
				s.Oracle = append(s.Oracle, legacyFindings(k, lb.img, c2, d2, m.Class)...)
				if c2 != nil && c2.Obs.Accepted() {
					s.OpKinds["accepted-mutants"]++
				} else {
					s.OpKinds["rejected-mutants"]++
				}
			}
			_ = mi
		}
	}
}

// ---------------------------------------------------------------------------------------------
// signer listings (C17)

func runSignedBy(s *summary, k *h.Keys, root *h.Rng, n int, thorough bool, addCase addCaseFn) {
	for i := 0; i < n; i++ {
		r := root.Fork()
		b, info := h.GenGroupedImage(r)
		if len(info.Groups) == 0 {
			continue
		}
		desc := fmt.Sprintf("image %d {%s};", i, info.Desc)
		forged := false
		forgedGroup := uint32(0)
		groupSigners := map[uint32]map[string]bool{}
		legacyObj := map[uint32]uint32{} // group -> member carrying its own legacy signature
		// 0-3 PGP signers per group, DSSE signatures without fingerprints mixed in, unsigned groups
		for _, g := range info.Groups {
			f, _ := sif.LoadContainer(b, sif.OptLoadWithCloseOnUnload(false))
			np := r.Intn(4)
			ents := []int{0, 1, 2}
			for j := 0; j < np; j++ {
				e := ents[(j+i)%3]
				if err := h.SignOnHandle(k, f, h.SignConfig{Scheme: "pgp", Entity: e, Groups: []uint32{g}}); err != nil {
					panic(err)
				}
				desc += fmt.Sprintf(" group %d signed by entity %d;", g, e)
				if groupSigners[g] == nil {
					groupSigners[g] = map[string]bool{}
				}
				groupSigners[g][string(k.Entities[e].PrimaryKey.Fingerprint)] = true
			}
			if r.Chance(1, 3) {
				name := h.Pick(r, k.Names)
				if err := h.SignOnHandle(k, f, h.SignConfig{Scheme: "dsse", DSSEKeys: []string{name}, Groups: []uint32{g}}); err != nil {
					panic(err)
				}
				desc += fmt.Sprintf(" group %d signed by dsse key %s;", g, name)
			}
			if r.Chance(1, 3) { // legacy signatures on the group and on one object
				e := r.Intn(3)
				img := bytes.Clone(b.Bytes())
				sig := h.ClearSign(k, e, h.LegacyPlaintext(crypto.SHA384, h.GroupData(img, g), true))
				_ = h.AddRawSignature(b, sig, g, 0, crypto.SHA384, k.Entities[e].PrimaryKey.Fingerprint, 0)
				for id := range members(img, g) {
					si, _ := h.DecodeImage(img)
					for _, d := range si.Descs {
						if d.Used && d.ID == id && d.Type != h.DataSignature {
							sg := h.ClearSign(k, e, h.LegacyPlaintext(crypto.SHA384, h.SectionBytes(img, d), false))
							e2 := (e + 1 + r.Intn(2)) % 3 // the object's signer differs from the group's
							if r.Chance(1, 2) {
								sg = h.ClearSign(k, e2, h.LegacyPlaintext(crypto.SHA384, h.SectionBytes(img, d), false))
								_ = h.AddRawSignature(b, sg, 0, id, crypto.SHA384, k.Entities[e2].PrimaryKey.Fingerprint, 0)
							} else {
								_ = h.AddRawSignature(b, sg, 0, id, crypto.SHA384, k.Entities[e].PrimaryKey.Fingerprint, 0)
							}
							legacyObj[g] = id
						}
					}
					break
				}
				desc += fmt.Sprintf(" legacy signatures on group %d by entity %d;", g, e)
			}
		}
		img := bytes.Clone(b.Bytes())
		// a validly made DSSE signature whose (unprotected) descriptor names somebody else
		if i%7 == 3 {
			g := h.Pick(r, info.Groups)
			f, _ := sif.LoadContainer(b, sif.OptLoadWithCloseOnUnload(false))
			if err := h.SignOnHandle(k, f, h.SignConfig{Scheme: "dsse", DSSEKeys: []string{"ed25519"}, Groups: []uint32{g}}); err == nil {
				img = bytes.Clone(b.Bytes())
				sds := h.SigDescs(img)
				last := sds[len(sds)-1]
				si, _ := h.DecodeImage(img)
				for j, d := range si.Descs {
					if d.Used && d.ID == last.ID {
						o := int(si.H.DescOff) + j*h.DescSize + 201 + 4
						copy(img[o:o+20], k.Entities[2].PrimaryKey.Fingerprint)
					}
				}
				forged = true
				desc += fmt.Sprintf(" dsse signature on group %d whose descriptor carries entity 2's fingerprint;", g)
			}
		}
		// a signature descriptor whose hash type is not one the format knows
		if i%7 == 1 {
			if sds := h.SigDescs(img); len(sds) > 0 {
				sd := h.Pick(r, sds)
				si, _ := h.DecodeImage(img)
				for j, d := range si.Descs {
					if d.Used && d.ID == sd.ID && d.Off == sd.Off {
						o := int(si.H.DescOff) + j*h.DescSize + 201
						img[o], img[o+1], img[o+2], img[o+3] = byte(h.Pick(r, []int{0, 7, 200})), 0, 0, 0
						desc += fmt.Sprintf(" hash type of signature %d made unknown;", sd.ID)
					}
				}
			}
		}
		// a PGP signature whose (unprotected) descriptor names another entity
		if i%7 == 5 {
			sds := h.SigDescs(img)
			si, _ := h.DecodeImage(img)
			for _, sd := range sds {
				_, ent := h.RealSigners(k, h.SectionBytes(img, sd), h.HashTypeOf(sd))
				if ent == nil || !sd.LinkIsGroup() || h.FingerprintOf(sd) == nil || !bytes.Equal(h.FingerprintOf(sd), ent) {
					continue
				}
				// an entity that signed nothing in this group
				var other []byte
				for _, e := range k.Entities {
					if !groupSigners[sd.LinkID()][string(e.PrimaryKey.Fingerprint)] {
						other = e.PrimaryKey.Fingerprint
					}
				}
				if other == nil {
					continue
				}
				for j, d := range si.Descs {
					if d.Used && d.ID == sd.ID && d.Off == sd.Off {
						o := int(si.H.DescOff) + j*h.DescSize + 201 + 4
						copy(img[o:o+20], other)
						forgedGroup = sd.LinkID()
						desc += fmt.Sprintf(" descriptor of PGP signature %d rewritten to name another entity;", sd.ID)
					}
				}
				break
			}
		}
		_ = forged
		base := h.VOpts{DSSEKeys: k.Names, PGPEntities: []int{0, 1, 2}}
		sels := []h.VOpts{base}
		for j := 0; j < 5; j++ {
			vo := base
			switch r.Intn(5) {
			case 0:
				for _, g := range info.Groups {
					if r.Chance(1, 2) {
						vo.Groups = append(vo.Groups, g)
					}
				}
			case 1:
				for id := uint32(1); id <= 12; id++ {
					if r.Chance(1, 4) {
						vo.Objects = append(vo.Objects, id)
					}
				}
			case 2:
				vo.Legacy = true
				if r.Chance(1, 2) {
					vo.Groups = []uint32{h.Pick(r, info.Groups)}
				}
			case 3:
				vo.LegacyAll = true
			case 4:
				vo.Groups = []uint32{h.Pick(r, info.Groups)}
				vo.Objects = []uint32{uint32(1 + r.Intn(6))}
			}
			sels = append(sels, vo)
		}
		for _, g := range info.Groups {
			// legacy requests that name a group and one of its own members, each with its own signature
			if id, ok := legacyObj[g]; ok {
				vo := base
				vo.Legacy, vo.Groups, vo.Objects = true, []uint32{g}, []uint32{id}
				sels = append(sels, vo)
				vo = base
				vo.Legacy, vo.Objects = true, []uint32{id}
				sels = append(sels, vo)
				vo = base
				vo.LegacyAll, vo.Groups = true, []uint32{g}
				sels = append(sels, vo)
			}
		}
		if forgedGroup != 0 {
			// requests aimed at the group whose signature names the wrong entity
			ids := keys(members(img, forgedGroup))
			vo := base
			vo.Objects = ids[:1]
			sels = append(sels, vo)
			vo.Objects = ids
			sels = append(sels, vo)
			vo.Objects, vo.Groups = nil, []uint32{forgedGroup}
			sels = append(sels, vo)
		}
		for _, vo := range sels {
			d2 := fmt.Sprintf("%s selection groups=%v objects=%v legacy=%v legacyAll=%v", desc, vo.Groups, vo.Objects, vo.Legacy, vo.LegacyAll)
			c := addCase(img, nil, vo, d2)
			if c == nil {
				continue
			}
			s.OracleRuns["signer-listings-exact"]++
			s.Oracle = append(s.Oracle, h.SignedByFindings(c, d2)...)
			// the queries do not alter the image: RunVerify works on a copy whose bytes are checked here
			if c.Obs.Accepted() {
				s.OpKinds["verified"]++
			} else {
				s.OpKinds["not-verified"]++
			}
			s.OpKinds[fmt.Sprintf("any=%d", len(c.Obs.Any))]++
		}
	}
}

package main

import (
	"bytes"
	"crypto"
	"encoding/hex"
	"fmt"
	"os"
	"os/exec"
	"path/filepath"
	"strconv"
	"strings"
	"time"

	"github.com/sylabs/sif/v2/pkg/sif"
	"verifharness/internal/h"
)

// C15: command histories executed with the siftool binary built from /repo's working tree,
// compared with the model (coq/Siftool.v) and judged by an oracle written from the property.

type addFlags struct {
	DataType                             int
	PartType, PartFS, PartArch, SignHash int
	SignEntity                           string
	SBOM                                 string
	Group                                uint32
	Link                                 *uint32
	Align                                *int
	Name                                 *string
}

type tCmd struct {
	Kind    string // new add del setprim dump info list header
	ID      string // textual ID argument
	Flags   addFlags
	Content []byte
}

type tStep struct {
	Cmd    tCmd
	Now    int64
	Rnd    [16]byte
	OK     bool
	After  []byte
	Stdout []byte
	Stderr string
}

var sbomNames = []string{"", "cyclonedx-json", "cyclonedx-xml", "github-json", "spdx-json", "spdx-rdf", "spdx-tag-value", "spdx-yaml", "syft-json"}

func (f addFlags) args() []string {
	var a []string
	put := func(k string, v any) { a = append(a, "--"+k, fmt.Sprint(v)) }
	if f.DataType != 0 {
		put("datatype", f.DataType)
	}
	if f.PartType != 0 {
		put("parttype", f.PartType)
	}
	if f.PartFS != 0 {
		put("partfs", f.PartFS)
	}
	if f.PartArch != 0 {
		put("partarch", f.PartArch)
	}
	if f.SignHash != 0 {
		put("signhash", f.SignHash)
	}
	if f.SignEntity != "" {
		put("signentity", f.SignEntity)
	}
	if f.SBOM != "" {
		put("sbomformat", f.SBOM)
	}
	if f.Group != 0 {
		put("groupid", f.Group)
	}
	if f.Link != nil {
		put("link", *f.Link)
	}
	if f.Align != nil {
		put("alignment", *f.Align)
	}
	if f.Name != nil {
		put("filename", *f.Name)
	}
	return a
}

func (f addFlags) coq() string {
	ent := "None"
	if b, err := hex.DecodeString(f.SignEntity); err == nil {
		ent = "(Some " + h.CoqBytes(b) + ")"
	}
	sb := "None"
	if f.SBOM != "" {
		k := 0
		for i, n := range sbomNames {
			if n == f.SBOM || f.SBOM == "github" && n == "github-json" {
				k = i
			}
		}
		sb = fmt.Sprintf("(Some %d)", k)
	}
	optZ := func(p *int) string {
		if p == nil {
			return "None"
		}
		return "(Some " + h.CoqZ(int64(*p)) + ")"
	}
	link := "None"
	if f.Link != nil {
		link = fmt.Sprintf("(Some %d)", *f.Link)
	}
	name := "None"
	if f.Name != nil {
		name = "(Some " + h.CoqBytes([]byte(*f.Name)) + ")"
	}
	z := func(v int) string { return h.CoqZ(int64(v)) }
	return fmt.Sprintf("(mkAF %s %s %s %s %s %s %s %d %s %s %s)", z(f.DataType), z(f.PartType), z(f.PartFS), z(f.PartArch), z(f.SignHash),
		ent, sb, f.Group, link, optZ(f.Align), name)
}

func (c tCmd) coq() string {
	id := func() string {
		v, _ := strconv.ParseUint(c.ID, 10, 32)
		return fmt.Sprint(v)
	}
	if c.Kind != "new" && c.Kind != "add" && c.Kind != "list" && c.Kind != "header" {
		if _, err := strconv.ParseUint(c.ID, 10, 32); err != nil {
			return "CRefused"
		}
	}
	switch c.Kind {
	case "new":
		return "CNew"
	case "add":
		return fmt.Sprintf("(CAdd %s (expand %s))", c.Flags.coq(), h.CoqRLE(c.Content))
	case "del":
		return "(CDel " + id() + ")"
	case "setprim":
		return "(CSetPrim " + id() + ")"
	case "dump":
		return "(CDump " + id() + ")"
	case "info":
		return "(CInfo " + id() + ")"
	case "list":
		return "CList"
	}
	return "CHeader"
}

func genAddFlags(r *h.Rng, nobj int) addFlags {
	f := addFlags{DataType: 1 + r.Intn(11)}
	if r.Chance(1, 12) {
		f.DataType = h.Pick(r, []int{0, 12, -1, 100})
	}
	if r.Chance(1, 3) {
		f.DataType = 4
	}
	if f.DataType == 4 || r.Chance(1, 10) {
		f.PartType, f.PartFS, f.PartArch = 1+r.Intn(4), 1+r.Intn(4), 1+r.Intn(12)
		if r.Chance(1, 3) {
			f.PartType = 2
		}
		switch r.Intn(12) {
		case 0:
			f.PartType = 0
		case 1:
			f.PartFS = 0
		case 2:
			f.PartArch = 0
		case 3:
			f.PartArch = 13
		}
	}
	if f.DataType == 5 || r.Chance(1, 12) {
		f.SignHash = 1 + r.Intn(5)
		f.SignEntity = strings.ToUpper(hex.EncodeToString(h.GenContent(r, 20)))
		switch r.Intn(10) {
		case 0:
			f.SignHash = 0
		case 1:
			f.SignHash = 6
		case 2:
			f.SignEntity = f.SignEntity[:38]
		case 3:
			f.SignEntity = "zz" + f.SignEntity[2:]
		case 4:
			f.SignEntity = ""
		}
	}
	if f.DataType == 9 || r.Chance(1, 15) {
		f.SBOM = sbomNames[1+r.Intn(8)]
		switch r.Intn(8) {
		case 0:
			f.SBOM = ""
		case 1:
			f.SBOM = "nonsense"
		case 2:
			f.SBOM = "github"
		}
	}
	switch r.Intn(4) {
	case 0:
		f.Group = 1
	case 1:
		f.Group = h.Pick(r, []uint32{2, 3, 0x0fffffff, 0x10000000, 0xffffffff})
	}
	if r.Chance(1, 4) {
		v := uint32(r.Intn(nobj + 2))
		f.Link = &v
	}
	if r.Chance(1, 3) {
		v := h.Pick(r, []int{0, 1, 2, 8, 512, 4096, 3, 1000, -1})
		f.Align = &v
	}
	if r.Chance(1, 2) {
		v := h.Pick(r, []string{"name", "", "a b", strings.Repeat("n", 127), strings.Repeat("n", 128), strings.Repeat("n", 129), "été"})
		f.Name = &v
	}
	return f
}

// directedAdds: one add per way its flags can be wrong (and their nearest valid neighbours), in a
// fixed order; the first two histories of every run go through them.
func directedAdds(r *h.Rng) []addFlags {
	fp := strings.ToUpper(hex.EncodeToString(h.GenContent(r, 20)))
	u := func(v uint32) *uint32 { return &v }
	i := func(v int) *int { return &v }
	st := func(v string) *string { return &v }
	sig := func(hash int, ent string) addFlags { return addFlags{DataType: 5, SignHash: hash, SignEntity: ent} }
	part := func(pt, fs, arch int) addFlags {
		return addFlags{DataType: 4, PartType: pt, PartFS: fs, PartArch: arch}
	}
	return []addFlags{
		sig(1, fp), sig(0, fp), sig(6, fp), sig(5, fp), sig(2, fp[:38]), sig(2, fp+"AB"), sig(2, "zz"+fp[2:]),
		sig(2, fp[:38]+"zz"), sig(2, fp+"zz"), sig(2, fp+"A"), sig(2, fp[:39]), sig(3, ""), sig(3, strings.ToLower(fp)),
		{DataType: 9, SBOM: "spdx-json"}, {DataType: 9, SBOM: ""}, {DataType: 9, SBOM: "nonsense"}, {DataType: 9, SBOM: "github"}, {DataType: 9, SBOM: "SPDX-JSON"},
		{DataType: 7, SBOM: "nonsense"}, {DataType: 7, SignHash: 9, SignEntity: "zz"},
		part(2, 1, 2), part(2, 1, 4), part(1, 2, 2), part(0, 1, 2), part(5, 1, 2), part(1, 0, 2), part(1, 7, 2), part(1, 1, 0), part(1, 1, 13), part(3, 5, 12), part(4, 6, 1),
		{DataType: 0}, {DataType: 12}, {DataType: -1}, {DataType: 11}, {DataType: 10},
		{DataType: 7, Group: 0x0fffffff}, {DataType: 7, Group: 0x10000000}, {DataType: 7, Group: 0xffffffff},
		{DataType: 7, Link: u(0)}, {DataType: 7, Link: u(1)}, {DataType: 7, Link: u(0xffffffff)}, {DataType: 7, Link: u(0x10000001)},
		{DataType: 7, Align: i(0)}, {DataType: 7, Align: i(-1)}, {DataType: 7, Align: i(3)}, {DataType: 4, PartType: 1, PartFS: 1, PartArch: 2, Align: i(0)},
		{DataType: 7, Name: st("")}, {DataType: 7, Name: st(strings.Repeat("n", 128))}, {DataType: 7, Name: st(strings.Repeat("n", 129))},
	}
}

func genContent(r *h.Rng, big bool) []byte {
	n := h.Pick(r, []int{0, 0, 1, 5, 100, 511, 512, 4096, 5000})
	if big {
		n = h.Pick(r, []int{1 << 20, 3<<20 + 17})
	}
	b := h.GenContent(r, n)
	if !big && r.Chance(1, 8) { // long runs of zero bytes, at the end or throughout
		switch r.Intn(3) {
		case 0:
			return append(h.GenContent(r, 5000), make([]byte, 64<<10)...)
		case 1:
			return make([]byte, 8192)
		default:
			return append(append(make([]byte, 4096), h.GenContent(r, 10)...), make([]byte, 12288)...)
		}
	}
	if n > 0 && r.Chance(1, 3) { // arbitrary binary, NULs and newlines included
		for i := 0; i < len(b) && i < 64; i++ {
			b[i] = byte(r.U64())
		}
	}
	return b
}

// firstDiffLine returns the first line of a that differs from the same line of b.
func firstDiffLine(a, b string) string {
	al, bl := strings.Split(a, "\n"), strings.Split(b, "\n")
	for i := range al {
		if i >= len(bl) || al[i] != bl[i] {
			return al[i]
		}
	}
	return "(nothing)"
}

var toolRuns int

func runTool(bin string, dir string, args ...string) (bool, []byte, string, int64, int64) {
	var so, se bytes.Buffer
	cmd := exec.Command(bin, args...)
	cmd.Dir = dir
	cmd.Stdout, cmd.Stderr = &so, &se
	// every other dump writes to a regular file (`siftool dump 1 img > file`), not to a pipe
	toolRuns++
	var outFile *os.File
	if len(args) > 0 && args[0] == "dump" && toolRuns%2 == 0 {
		if f, err := os.CreateTemp(dir, "dump-*.out"); err == nil {
			outFile = f
			cmd.Stdout = f
		}
	}
	t0 := time.Now().Unix()
	err := cmd.Run()
	t1 := time.Now().Unix()
	if outFile != nil {
		outFile.Close()
		b, _ := os.ReadFile(outFile.Name())
		os.Remove(outFile.Name())
		return err == nil, b, se.String(), t0, t1
	}
	return err == nil, so.Bytes(), se.String(), t0, t1
}

func buildSiftool(out string) string {
	bin := filepath.Join(out, "siftool-bin")
	cmd := exec.Command("go", "build", "-o", bin, "./cmd/siftool")
	cmd.Dir = "/repo"
	cmd.Env = append(os.Environ(), "GOFLAGS=-mod=mod", "GOPROXY=off", "GOSUMDB=off", "GOTOOLCHAIN=local", "CGO_ENABLED=0")
	if b, err := cmd.CombinedOutput(); err != nil {
		fmt.Fprintln(os.Stderr, "harness error: building siftool:", err, string(b))
		os.Exit(3)
	}
	return bin
}

// sameImage: header bytes and every object (descriptor and content) are unchanged.
func sameImage(before, after []byte) (bool, string) {
	bi, err1 := h.DecodeImage(before)
	ai, err2 := h.DecodeImage(after)
	if err1 != nil || err2 != nil {
		return bytes.Equal(before, after), "file no longer decodes"
	}
	if !bytes.Equal(before[:128], after[:128]) {
		return false, "header bytes changed"
	}
	if len(bi.Descs) != len(ai.Descs) {
		return false, "descriptor count changed"
	}
	for i, d := range bi.Descs {
		if !bytes.Equal(h.EncodeDesc(d), h.EncodeDesc(ai.Descs[i])) {
			return false, fmt.Sprintf("descriptor slot %d changed", i)
		}
		if d.Used && !bytes.Equal(h.SectionBytes(before, d), h.SectionBytes(after, ai.Descs[i])) {
			return false, fmt.Sprintf("content of object %d changed", d.ID)
		}
	}
	return true, ""
}

func runSiftool(seed uint64, n, shards int, out, tmp string, maxops int, thorough bool) summary {
	s := newSummary("siftool", seed)
	bin := buildSiftool(tmp)
	root := h.NewRng(seed)
	var cases [][]tStep
	// reports on images the commands themselves cannot make: library-signed images (signature
	// objects with and without a recorded fingerprint, groups, links) and the shipped corpus
	{
		k := h.LoadKeys("/repo")
		r := root.Fork()
		imgs := [][]byte{
			signedBase(k, r, h.BaseSpec{Scheme: "dsse", DSSEKeys: []string{"ed25519"}, TwoGroups: true}),
			signedBase(k, r, h.BaseSpec{Scheme: "pgp", Entity: 0, TwoGroups: true}),
		}
		names := []string{"dsse-signed two groups", "pgp-signed two groups"}
		cn, cimg := h.CorpusImages("/repo")
		for i := range cn {
			if len(cimg[i]) < 200000 && len(imgs) < 8 {
				imgs, names = append(imgs, cimg[i]), append(names, "corpus "+cn[i])
			}
		}
		dir := filepath.Join(tmp, "reports")
		_ = os.MkdirAll(dir, 0o755)
		for i, img := range imgs {
			path := filepath.Join(dir, fmt.Sprintf("r%d.sif", i))
			_ = os.WriteFile(path, img, 0o644)
			si, err := h.DecodeImage(img)
			if err != nil {
				continue
			}
			cmds := [][]string{{"header"}, {"list"}}
			for _, d := range si.Descs {
				if d.Used {
					cmds = append(cmds, []string{"info", fmt.Sprint(d.ID)})
				}
			}
			for _, c := range cmds {
				ok, so, se, _, _ := runTool(bin, dir, append(c, path)...)
				s.OracleRuns["reports-show-the-true-values"]++
				id := uint64(0)
				if len(c) > 1 {
					id, _ = strconv.ParseUint(c[1], 10, 32)
				}
				want, applies := expectedReport(c[0], img, uint32(id))
				switch {
				case !applies:
				case !ok:
					s.Oracle = append(s.Oracle, h.Finding{Property: "C15", Case: -1 - i, What: fmt.Sprintf("%v failed on a loadable image: %s", c, se), Input: names[i]})
				case normReport(string(so)) != want:
					s.Oracle = append(s.Oracle, h.Finding{Property: "C15", Case: -1 - i,
						What: fmt.Sprintf("%v report differs from the true values: printed %q, expected %q", c, firstDiffLine(normReport(string(so)), want), firstDiffLine(want, normReport(string(so)))), Input: names[i]})
				}
				if after, _ := os.ReadFile(path); !bytes.Equal(after, img) {
					s.Oracle = append(s.Oracle, h.Finding{Property: "C15", Case: -1 - i, What: fmt.Sprintf("%v changed the file", c), Input: names[i]})
				}
			}
		}
	}
	for ci := 0; ci < n; ci++ {
		r := root.Fork()
		dir := filepath.Join(tmp, fmt.Sprintf("h%d", ci))
		_ = os.MkdirAll(dir, 0o755)
		img := filepath.Join(dir, "image.sif")
		var steps []tStep
		var cur []byte
		bad := func(k int, format string, a ...any) {
			s.Oracle = append(s.Oracle, h.Finding{Property: "C15", Case: ci, Step: k, What: fmt.Sprintf(format, a...),
				Input: describeHistory(steps)})
		}
		nobj := 0
		var usedIDs, partIDs []uint32
		nsteps := 4 + r.Intn(maxops)
		var directed []addFlags
		if ci < 2 {
			all := directedAdds(r)
			directed = all[ci*len(all)/2 : (ci+1)*len(all)/2]
			nsteps = 1 + len(directed)
		}
		hasBig := false
		// epilogue: the three reports, `info` for every object the image then holds
		var epilogue []tCmd
		for k := 0; ; k++ {
			if k == nsteps {
				if directed != nil && len(usedIDs) > 0 {
					// identifiers that are no 32-bit numbers, among them ones whose low 32 bits name an object
					wrap := fmt.Sprint(uint64(1)<<32 + uint64(usedIDs[0]))
					for _, kind := range []string{"info", "dump", "setprim", "del"} {
						for _, bad := range []string{wrap, "4294967296", "0", "-1", "x", ""} {
							epilogue = append(epilogue, tCmd{Kind: kind, ID: bad})
						}
					}
				}
				epilogue = append(epilogue, tCmd{Kind: "header"}, tCmd{Kind: "list"})
				for _, id := range usedIDs {
					if len(epilogue) < 40 {
						epilogue = append(epilogue, tCmd{Kind: "info", ID: fmt.Sprint(id)})
					}
				}
			}
			if k >= nsteps && len(epilogue) == 0 {
				break
			}
			var c tCmd
			switch {
			case k >= nsteps:
				c, epilogue = epilogue[0], epilogue[1:]
			case k == 0:
				c = tCmd{Kind: "new"}
			case directed != nil:
				c = tCmd{Kind: "add", Flags: directed[k-1], Content: genContent(r, false)}
			default:
				switch x := r.Intn(20); {
				case x < 9:
					big := thorough && !hasBig && r.Chance(1, 6) || !thorough && ci%16 == 3 && !hasBig && k == 2
					c = tCmd{Kind: "add", Flags: genAddFlags(r, nobj), Content: genContent(r, big)}
					hasBig = hasBig || big
				case x < 12:
					c = tCmd{Kind: "del"}
				case x < 14:
					c = tCmd{Kind: "setprim"}
				case x < 17:
					c = tCmd{Kind: "dump"}
				case x < 18:
					c = tCmd{Kind: "info"}
				case x < 19:
					c = tCmd{Kind: "list"}
				default:
					c = tCmd{Kind: "header"}
				}
				if c.Kind != "add" && c.Kind != "list" && c.Kind != "header" {
					c.ID = fmt.Sprint(1 + r.Intn(nobj+2))
					if c.Kind == "setprim" && len(partIDs) > 0 && r.Chance(3, 4) {
						c.ID = fmt.Sprint(h.Pick(r, partIDs))
					} else if len(usedIDs) > 0 && r.Chance(3, 4) {
						c.ID = fmt.Sprint(h.Pick(r, usedIDs))
					}
					if r.Chance(1, 15) {
						c.ID = h.Pick(r, []string{"0", "4294967295", "4294967296", "-1", "x", ""})
						if len(usedIDs) > 0 && r.Chance(1, 2) { // an ID that is no uint32 but whose low 32 bits name an object
							c.ID = fmt.Sprint(uint64(1)<<32 + uint64(h.Pick(r, usedIDs)))
						}
					}
				}
			}
			var args []string
			switch c.Kind {
			case "new", "list", "header":
				args = []string{c.Kind, img}
			case "add":
				obj := filepath.Join(dir, fmt.Sprintf("obj%d.bin", k))
				_ = os.WriteFile(obj, c.Content, 0o644)
				args = append([]string{"add"}, c.Flags.args()...)
				args = append(args, img, obj)
			default:
				args = []string{c.Kind, c.ID, img}
			}
			ok, so, se, t0, t1 := runTool(bin, dir, args...)
			after, _ := os.ReadFile(img)
			st := tStep{Cmd: c, OK: ok, After: after, Stdout: so, Stderr: se, Now: t0}
			s.OpKinds[c.Kind]++
			if ok {
				s.Results[c.Kind+":ok"]++
			} else {
				s.Results[c.Kind+":failed"]++
			}
			ai, derr := h.DecodeImage(after)
			// the clock the command used, read back from what it stamped
			if ok && derr == nil && (c.Kind == "new" || c.Kind == "add" || c.Kind == "del" || c.Kind == "setprim") {
				if ai.H.Mtime >= t0 && ai.H.Mtime <= t1 {
					st.Now = ai.H.Mtime
					s.ClockNotes++
				} else if !(c.Kind == "setprim" && bytes.Equal(after, cur)) {
					s.ClockBad++
					bad(k, "%s stamped modification time %d, outside the interval [%d, %d] the command ran in", c.Kind, ai.H.Mtime, t0, t1)
				}
				if c.Kind == "new" {
					st.Rnd = ai.H.ID
				}
			}
			steps = append(steps, st)
			// ----- the property, judged on the implementation -----
			s.OracleRuns["commands-judged"]++
			if !ok {
				if strings.TrimSpace(se) == "" {
					bad(k, "%s failed without a message on standard error", c.Kind)
				}
				if c.Kind != "new" && cur != nil {
					if same, why := sameImage(cur, after); !same {
						bad(k, "%s failed but the file changed: %s", c.Kind, why)
					}
				}
			}
			if c.Kind == "dump" && ok {
				id, _ := strconv.ParseUint(c.ID, 10, 32)
				found := false
				if bi, err := h.DecodeImage(cur); err == nil {
					for _, d := range bi.Descs {
						if d.Used && uint64(d.ID) == id {
							found = true
							if !bytes.Equal(so, h.SectionBytes(cur, d)) {
								bad(k, "dump %d wrote %d bytes that are not the object's %d bytes", id, len(so), d.Size)
							}
						}
					}
				}
				if !found {
					bad(k, "dump %s succeeded but no such object exists", c.ID)
				}
			}
			if (c.Kind == "dump" || c.Kind == "info" || c.Kind == "list" || c.Kind == "header") && !bytes.Equal(after, cur) {
				bad(k, "%s changed the file", c.Kind)
			}
			if ok && derr == nil && (c.Kind == "header" || c.Kind == "list" || c.Kind == "info") {
				s.OracleRuns["reports-show-the-true-values"]++
				id, _ := strconv.ParseUint(c.ID, 10, 32)
				if want, applies := expectedReport(c.Kind, cur, uint32(id)); applies && normReport(string(so)) != want {
					got := normReport(string(so))
					gl, wl := strings.Split(got, "\n"), strings.Split(want, "\n")
					i := 0
					for i < len(gl) && i < len(wl) && gl[i] == wl[i] {
						i++
					}
					g, w := "(nothing)", "(nothing)"
					if i < len(gl) {
						g = gl[i]
					}
					if i < len(wl) {
						w = wl[i]
					}
					bad(k, "%s report differs from the true values at line %d: printed %q, expected %q", c.Kind, i+1, g, w)
				}
			}
			if ok && derr == nil {
				switch c.Kind {
				case "header":
					for _, want := range []string{
						fmt.Sprintf("Descriptors Free: %d", ai.H.Free), fmt.Sprintf("Descriptors Total: %d", ai.H.Total),
						fmt.Sprintf("Descriptors Offset: %d", ai.H.DescOff), fmt.Sprintf("Data Offset: %d", ai.H.DataOff)} {
						if !strings.Contains(squash(string(so)), want) {
							bad(k, "header output lacks %q", want)
						}
					}
				case "list":
					for _, d := range ai.Descs {
						if d.Used && !strings.Contains(string(so), fmt.Sprintf("|%d-%d ", d.Off, d.Off+d.Size)) {
							bad(k, "list output lacks the position of object %d", d.ID)
						}
					}
				case "info":
					id, _ := strconv.ParseUint(c.ID, 10, 32)
					for _, d := range ai.Descs {
						if d.Used && uint64(d.ID) == id {
							for _, want := range []string{fmt.Sprintf("ID: %d", d.ID), fmt.Sprintf("Offset: %d", d.Off), fmt.Sprintf("Size: %d", d.Size)} {
								if !strings.Contains(squash(string(so)), want) {
									bad(k, "info output lacks %q", want)
								}
							}
						}
					}
				}
			}
			// "change the file exactly as the library would for the same arguments"
			if c.Kind == "add" || c.Kind == "del" || c.Kind == "setprim" {
				s.OracleRuns["library-call-with-the-same-arguments"]++
				if want, wok, applies := libraryTwin(cur, c, st.Now); applies {
					if wok != ok {
						bad(k, "%s: exit status ok=%v, the library call with the same arguments gives ok=%v", c.Kind, ok, wok)
					} else if ok && !bytes.Equal(want, after) {
						bad(k, "%s left a file that differs (first at byte %d) from what the library call with the same arguments leaves", c.Kind, firstDiffBytes(want, after))
					}
				}
			}
			cur = after
			if derr == nil {
				nobj, usedIDs, partIDs = 0, nil, nil
				for _, d := range ai.Descs {
					if d.Used {
						nobj++
						usedIDs = append(usedIDs, d.ID)
						if d.Type == h.DataPartition {
							partIDs = append(partIDs, d.ID)
						}
					}
				}
			}
		}
		s.Cases++
		s.Steps += len(steps)
		cases = append(cases, steps)
		if len(s.Samples) < 2 {
			s.Samples = append(s.Samples, describeHistory(steps))
		}
		_ = os.RemoveAll(dir)
	}
	_ = os.Remove(bin)
	s.Distinct = len(s.Results)
	// Coq shards
	if shards > len(cases) {
		shards = len(cases)
	}
	for k := 0; k < shards; k++ {
		var sb strings.Builder
		sb.WriteString("From Coq Require Import List ZArith.\nFrom Coq.Init Require Import Byte.\n")
		sb.WriteString("From Sif Require Import Bytes Store Format Image Exec Siftool ExecS.\nImport ListNotations.\nLocal Open Scope Z_scope.\n")
		sb.WriteString("Definition cases : list tcase := [\n")
		first := true
		for ci := k; ci < len(cases); ci += shards {
			big := false
			for _, st := range cases[ci] {
				big = big || len(st.Cmd.Content) > 100000
			}
			if big {
				continue // multi-megabyte payloads are judged on the implementation only
			}
			if !first {
				sb.WriteString(";\n")
			}
			first = false
			var ss []string
			for _, st := range cases[ci] {
				outp := "None"
				if st.Cmd.Kind == "dump" && st.OK {
					outp = "(Some " + h.CoqRLE(st.Stdout) + ")"
				}
				ss = append(ss, fmt.Sprintf("mkTStep %s %s %s %s %s %s", st.Cmd.coq(), h.CoqZ(st.Now), h.CoqBytes(st.Rnd[:]),
					h.CoqBool(st.OK), h.CoqRLE(st.After), outp))
			}
			fmt.Fprintf(&sb, "mkTCase %d [\n  %s]", ci, strings.Join(ss, ";\n  "))
		}
		sb.WriteString("].\nDefinition M := Eval vm_compute in tmismatches cases.\nPrint M.\n")
		name := fmt.Sprintf("Cases_siftool_%d.v", k)
		if err := os.WriteFile(filepath.Join(out, name), []byte(sb.String()), 0o644); err != nil {
			panic(err)
		}
		s.Files = append(s.Files, name)
	}
	return s
}

func squash(s string) string { return strings.Join(strings.Fields(s), " ") }

func describeHistory(steps []tStep) string {
	var p []string
	for _, st := range steps {
		d := st.Cmd.Kind
		switch st.Cmd.Kind {
		case "add":
			d += " " + strings.Join(st.Cmd.Flags.args(), " ") + fmt.Sprintf(" <%d bytes>", len(st.Cmd.Content))
		case "new", "list", "header":
		default:
			d += " " + st.Cmd.ID
		}
		if !st.OK {
			d += " (failed)"
		}
		p = append(p, d)
	}
	return strings.Join(p, "; ")
}

// libraryTwin performs on a copy of the file the library call the command stands for, as the
// documentation of the flags describes it. applies=false when the command line itself is
// invalid (then the command must fail, which is checked elsewhere).
func libraryTwin(cur []byte, c tCmd, now int64) (after []byte, ok bool, applies bool) {
	buf := sif.NewBuffer(bytes.Clone(cur))
	f, err := sif.LoadContainer(buf, sif.OptLoadWithCloseOnUnload(false))
	if err != nil {
		return nil, false, true
	}
	t := time.Unix(now, 0)
	switch c.Kind {
	case "del", "setprim":
		id, perr := strconv.ParseUint(c.ID, 10, 32)
		if perr != nil {
			return cur, false, true
		}
		if c.Kind == "del" {
			err = f.DeleteObject(uint32(id), sif.OptDeleteWithTime(t))
		} else {
			err = f.SetPrimPart(uint32(id), sif.OptSetWithTime(t))
		}
	case "add":
		fl := c.Flags
		if fl.DataType < 1 || fl.DataType > 11 {
			return cur, false, true
		}
		dt := sif.DataType(0x4000 + fl.DataType)
		var opts []sif.DescriptorInputOpt
		if fl.Group == 0 {
			opts = append(opts, sif.OptNoGroup())
		} else {
			opts = append(opts, sif.OptGroupID(fl.Group))
		}
		if fl.Link != nil {
			opts = append(opts, sif.OptLinkedID(*fl.Link))
		}
		if fl.Align != nil {
			opts = append(opts, sif.OptObjectAlignment(*fl.Align))
		}
		if fl.Name != nil {
			opts = append(opts, sif.OptObjectName(*fl.Name))
		}
		switch dt {
		case sif.DataPartition:
			if fl.PartType == 0 || fl.PartFS == 0 || fl.PartArch == 0 {
				return cur, false, true
			}
			arch := "unknown"
			if fl.PartArch >= 1 && fl.PartArch <= 12 {
				arch = h.ArchNames[fl.PartArch-1]
			}
			opts = append(opts, sif.OptPartitionMetadata(sif.FSType(fl.PartFS), sif.PartType(fl.PartType), arch))
		case sif.DataSignature:
			fp, herr := hex.DecodeString(fl.SignEntity)
			if herr != nil || len(fp) != 20 || fl.SignHash < 1 || fl.SignHash > 5 {
				return cur, false, true
			}
			opts = append(opts, sif.OptSignatureMetadata([]crypto.Hash{crypto.SHA256, crypto.SHA384, crypto.SHA512, crypto.BLAKE2s_256, crypto.BLAKE2b_256}[fl.SignHash-1], fp))
		case sif.DataSBOM:
			k := 0
			for i, n := range sbomNames {
				if i > 0 && (n == fl.SBOM || fl.SBOM == "github" && n == "github-json") {
					k = i
				}
			}
			if k == 0 {
				return cur, false, true
			}
			opts = append(opts, sif.OptSBOMMetadata(sif.SBOMFormat(k)))
		}
		di, derr := sif.NewDescriptorInput(dt, bytes.NewReader(c.Content), opts...)
		if derr != nil {
			return cur, false, true
		}
		err = f.AddObject(di, sif.OptAddWithTime(t))
	}
	return bytes.Clone(buf.Bytes()), err == nil, true
}

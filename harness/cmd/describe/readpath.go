package main

import (
	"fmt"
	"go/ast"
	"go/parser"
	"go/token"
	"os"
	"path/filepath"
	"sort"
	"strings"
)

// Read-path analysis for C18: from the read-only entry points of pkg/sif and pkg/integrity,
// follow calls by name inside each package (an over-approximation: methods of the same name on
// different types are merged) and list
//   - assignments whose target is reached through a receiver or parameter that points to one of
//     the shared types (FileImage, Buffer, Verifier, rawDescriptor, header), and assignments to
//     package-level variables;
//   - method calls on package-level variables (pools, caches, mutex-less maps).
// Both lists are empty on a tree whose read paths write nothing shared.

var sharedTypes = map[string]bool{"FileImage": true, "Buffer": true, "Verifier": true, "rawDescriptor": true, "header": true}

type pkgInfo struct {
	name     string
	funcs    map[string][]*ast.FuncDecl // by bare name
	pkgVars  map[string]bool
	imported map[string]bool
}

func loadPkg(dir string) *pkgInfo {
	fset := token.NewFileSet()
	pkgs, err := parser.ParseDir(fset, dir, func(fi os.FileInfo) bool {
		return !strings.HasSuffix(fi.Name(), "_test.go") && !strings.HasPrefix(fi.Name(), "verif_")
	}, 0)
	if err != nil {
		die("%v", err)
	}
	p := &pkgInfo{funcs: map[string][]*ast.FuncDecl{}, pkgVars: map[string]bool{}, imported: map[string]bool{}}
	for name, pkg := range pkgs {
		p.name = name
		for _, f := range pkg.Files {
			for _, im := range f.Imports {
				n := strings.Trim(im.Path.Value, "\"")
				n = n[strings.LastIndex(n, "/")+1:]
				if im.Name != nil {
					n = im.Name.Name
				}
				p.imported[n] = true
			}
			for _, d := range f.Decls {
				switch d := d.(type) {
				case *ast.FuncDecl:
					p.funcs[d.Name.Name] = append(p.funcs[d.Name.Name], d)
				case *ast.GenDecl:
					if d.Tok == token.VAR {
						for _, s := range d.Specs {
							for _, n := range s.(*ast.ValueSpec).Names {
								p.pkgVars[n.Name] = true
							}
						}
					}
				}
			}
		}
	}
	return p
}

func typeName(e ast.Expr) string {
	switch t := e.(type) {
	case *ast.StarExpr:
		return typeName(t.X)
	case *ast.Ident:
		return t.Name
	case *ast.SelectorExpr:
		return t.Sel.Name
	}
	return ""
}

func isPtr(e ast.Expr) bool { _, ok := e.(*ast.StarExpr); return ok }

func rootIdent(e ast.Expr) *ast.Ident {
	for {
		switch t := e.(type) {
		case *ast.Ident:
			return t
		case *ast.SelectorExpr:
			e = t.X
		case *ast.IndexExpr:
			e = t.X
		case *ast.StarExpr:
			e = t.X
		case *ast.ParenExpr:
			e = t.X
		default:
			return nil
		}
	}
}

func analyse(p *pkgInfo, roots []string) (writes, sharedCalls []string) {
	seen := map[*ast.FuncDecl]bool{}
	var work []*ast.FuncDecl
	push := func(name string) {
		for _, fd := range p.funcs[name] {
			if !seen[fd] {
				seen[fd] = true
				work = append(work, fd)
			}
		}
	}
	for _, r := range roots {
		push(r)
	}
	ws, cs := map[string]bool{}, map[string]bool{}
	for len(work) > 0 {
		fd := work[len(work)-1]
		work = work[:len(work)-1]
		if fd.Body == nil {
			continue
		}
		fname := fd.Name.Name
		if fd.Recv != nil && len(fd.Recv.List) > 0 {
			fname = typeName(fd.Recv.List[0].Type) + "." + fname
		}
		// identifiers that point to shared state
		shared := map[string]string{}
		note := func(fl *ast.FieldList) {
			if fl == nil {
				return
			}
			for _, f := range fl.List {
				if isPtr(f.Type) && sharedTypes[typeName(f.Type)] {
					for _, n := range f.Names {
						shared[n.Name] = typeName(f.Type)
					}
				}
			}
		}
		note(fd.Recv)
		note(fd.Type.Params)
		locals := map[string]bool{}
		ast.Inspect(fd.Body, func(n ast.Node) bool {
			switch n := n.(type) {
			case *ast.AssignStmt:
				if n.Tok == token.DEFINE {
					for _, l := range n.Lhs {
						if id, ok := l.(*ast.Ident); ok {
							locals[id.Name] = true
						}
					}
				}
			case *ast.ValueSpec:
				for _, id := range n.Names {
					locals[id.Name] = true
				}
			}
			return true
		})
		target := func(e ast.Expr) {
			id := rootIdent(e)
			if id == nil {
				return
			}
			if _, isIdent := e.(*ast.Ident); !isIdent {
				if t, ok := shared[id.Name]; ok {
					ws[fmt.Sprintf("%s.%s: write through %s (*%s)", p.name, fname, id.Name, t)] = true
				}
			}
			if p.pkgVars[id.Name] && !locals[id.Name] && shared[id.Name] == "" {
				ws[fmt.Sprintf("%s.%s: write to package variable %s", p.name, fname, id.Name)] = true
			}
		}
		ast.Inspect(fd.Body, func(n ast.Node) bool {
			switch n := n.(type) {
			case *ast.AssignStmt:
				if n.Tok != token.DEFINE {
					for _, l := range n.Lhs {
						target(l)
					}
				}
			case *ast.IncDecStmt:
				target(n.X)
			case *ast.CallExpr:
				switch fn := n.Fun.(type) {
				case *ast.Ident:
					push(fn.Name)
				case *ast.SelectorExpr:
					if id, ok := fn.X.(*ast.Ident); ok {
						if p.pkgVars[id.Name] && !locals[id.Name] && !p.imported[id.Name] {
							cs[fmt.Sprintf("%s.%s: call %s.%s on a package variable", p.name, fname, id.Name, fn.Sel.Name)] = true
						}
						if p.imported[id.Name] && !locals[id.Name] && shared[id.Name] == "" {
							break // a function of another package
						}
					}
					push(fn.Sel.Name)
				}
			}
			return true
		})
	}
	for w := range ws {
		writes = append(writes, w)
	}
	for c := range cs {
		sharedCalls = append(sharedCalls, c)
	}
	sort.Strings(writes)
	sort.Strings(sharedCalls)
	return writes, sharedCalls
}

func genReadPath(repo, out string) {
	sifRoots := []string{"GetDescriptors", "GetDescriptor", "WithDescriptors", "getDescriptor", "withDescriptors",
		"GetData", "GetReader", "GetIntegrityReader", "GetHeaderIntegrityReader", "ReadAt",
		"LaunchScript", "Version", "PrimaryArch", "ID", "CreatedAt", "ModifiedAt", "DescriptorsFree", "DescriptorsTotal",
		"DescriptorsOffset", "DescriptorsSize", "DataOffset", "DataSize", "DataType", "GroupID", "LinkedID", "Offset", "Size",
		"Name", "PartitionMetadata", "SignatureMetadata", "CryptoMessageMetadata", "SBOMMetadata",
		"OCIBlobDigest", "GetMetadata", "isDeterministic"}
	integRoots := []string{"NewVerifier", "Verify", "AnySignedBy", "AllSignedBy", "fingerprints"}
	w1, c1 := analyse(loadPkg(filepath.Join(repo, "pkg", "sif")), sifRoots)
	w2, c2 := analyse(loadPkg(filepath.Join(repo, "pkg", "integrity")), integRoots)
	var sb strings.Builder
	sb.WriteString("(* GENERATED by harness/cmd/describe from /repo's working tree. Do not edit. *)\n")
	sb.WriteString("From Coq Require Import List String.\nImport ListNotations.\n\n")
	fmt.Fprintf(&sb, "Definition gen_read_path_writes : list string := %s.\n", strList(append(w1, w2...)))
	fmt.Fprintf(&sb, "Definition gen_read_path_shared_calls : list string := %s.\n", strList(append(c1, c2...)))
	if err := os.WriteFile(filepath.Join(out, "ReadPathGen.v"), []byte(sb.String()), 0o644); err != nil {
		die("%v", err)
	}
}

module verifharness

go 1.23.0

require (
	github.com/ProtonMail/go-crypto v1.2.0
	github.com/google/go-containerregistry v0.20.3
	github.com/google/uuid v1.6.0
	github.com/sigstore/sigstore v1.9.3
	github.com/spf13/cobra v1.9.1
	github.com/sylabs/sif/v2 v2.0.0
)

require (
	github.com/cloudflare/circl v1.6.0 // indirect
	github.com/go-jose/go-jose/v4 v4.0.5 // indirect
	github.com/letsencrypt/boulder v0.0.0-20240620165639-de9c06129bec // indirect
	github.com/opencontainers/go-digest v1.0.0 // indirect
	github.com/secure-systems-lab/go-securesystemslib v0.9.0 // indirect
	github.com/sigstore/protobuf-specs v0.4.1 // indirect
	github.com/spf13/pflag v1.0.6 // indirect
	github.com/titanous/rocacheck v0.0.0-20171023193734-afe73141d399 // indirect
	golang.org/x/crypto v0.36.0 // indirect
	golang.org/x/sys v0.31.0 // indirect
	golang.org/x/term v0.30.0 // indirect
	google.golang.org/genproto/googleapis/api v0.0.0-20240520151616-dc85e6b867a5 // indirect
	google.golang.org/protobuf v1.36.6 // indirect
	gopkg.in/yaml.v3 v3.0.1 // indirect
)

replace github.com/sylabs/sif/v2 => /repo

#!/usr/bin/env python3
"""Self-test: apply each seeded mutation to /repo, run the named quick checks, undo it.
usage: mutants.py [--props C01,C02] [ids...]   (default: every seeded id against its own property)
Writes seeded/RESULTS.json (which checks catch which change)."""
import json, os, subprocess, sys, glob
ROOT = os.path.dirname(os.path.abspath(__file__))
def sh(c):
    return subprocess.run(c, shell=True, stdout=subprocess.PIPE, stderr=subprocess.STDOUT, text=True)
args = sys.argv[1:]
props = None
if args and args[0] == "--props":
    props = args[1].split(","); args = args[2:]
ids = args or sorted(os.path.basename(d) for d in glob.glob(ROOT + "/seeded/C*-m*"))
resf = ROOT + "/seeded/RESULTS.json"
results = json.load(open(resf)) if os.path.exists(resf) else {}
claimed = {c["property_id"] for c in json.load(open(ROOT + "/MANIFEST.json"))["checks"]}
assert sh("git -C /repo status --porcelain").stdout.strip() == "", "/repo not clean"
for i in ids:
    patch = "%s/seeded/%s/patch.diff" % (ROOT, i)
    own = i.split("-")[0]
    plist = props or [own]
    r = sh("git -C /repo apply %s" % patch)
    if r.returncode != 0:
        print(i, "patch does not apply:", r.stdout); continue
    try:
        for p in plist:
            if p not in claimed:
                print(i, p, "not claimed yet"); continue
            out = sh("cd %s && python3 run.py %s --tier quick" % (ROOT, p))
            viol = [l for l in out.stdout.splitlines() if l.startswith("VIOLATION")]
            caught = out.returncode == 1 and bool(viol)
            results.setdefault(i, {})[p] = {"caught": caught, "line": viol[0] if viol else "", "rc": out.returncode}
            print(i, p, "CAUGHT" if caught else "missed", viol[0] if viol else "", flush=True)
    finally:
        sh("git -C /repo checkout -- .")
json.dump(results, open(resf, "w"), indent=1, sort_keys=True)

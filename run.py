#!/usr/bin/env python3
"""Driver of the sif verification checks.

  python3 run.py setup                     build the Coq development and the harness
  python3 run.py Cnn --tier quick|thorough decide property Cnn on /repo's working tree
  python3 run.py replay <path>             show / re-run a replay file

Exit 0: property held on everything explored.  Exit 1: a line
`VIOLATION property=<id> replay=<path>` was printed.  See DESIGN.md section 4.
"""
import fcntl
import glob
import hashlib
import json
import os
import re
import shutil
import subprocess
import sys
import time

ROOT = os.path.dirname(os.path.abspath(__file__))
COQ = os.path.join(ROOT, "coq")
HARNESS = os.path.join(ROOT, "harness")
WORK = os.path.join(ROOT, ".work")
BIN = os.path.join(WORK, "bin")
REPO = "/repo"
EVID = os.path.join(ROOT, "evidence")
REPLAYS = os.path.join(ROOT, "replays")

GOENV = dict(os.environ, GOFLAGS="-mod=mod", GOPROXY="off", GOSUMDB="off", GOTOOLCHAIN="local",
             CGO_ENABLED="0")

FORBIDDEN = re.compile(
    r"\b(Admitted|admit|Axiom|Axioms|Parameter|Parameters|Conjecture|Hypothesis|"
    r"Admit Obligations|bypass_check)\b|Unset Guard|Unset Positivity|Unset Universe|"
    r"type-in-type|impredicative-set")

# mismatch codes of Exec.check_state that matter to each property (DESIGN.md 3.2)
CODES = {
    "C01": {1, 2, 3, 7, 10},
    "C02": {1, 2, 3, 4, 7, 8, 10},
    "C03": {5, 7, 8, 9, 15},
    "C08": {2, 3, 4, 8},
    "C11": {5, 8, 9, 10},
    "C12": {1, 2, 3, 5, 9},
    "C13": {11},
    "C14": {1, 5, 6, 9, 12, 13},
    # integrity (ExecI.v): 20 image does not load in the model, 21 NewVerifier, 22 Verify, 23 callback
    # reports, 24 AnySignedBy, 25 AllSignedBy; 30 image does not load, 31 NewSigner/Sign result, 32 signed bytes
    "C09": {1, 2, 3, 5, 9, 14},
    "C18": {11},
    "C15": {40, 41, 42},
    "C10": {1, 2, 3, 4, 10, 11, 20, 21, 22, 23, 24, 25},
    "C04": {20, 21, 22, 23},
    "C05": {20, 21, 22, 23},
    "C06": {20, 21, 22, 23, 30, 31, 32},
    "C07": {20, 21, 22, 23},
    "C16": {20, 21, 22, 23},
    "C17": {20, 21, 24, 25},
}
CODES["C12"] = CODES["C12"] | {30, 31, 32}
CODE_NAMES = {1: "result", 2: "in-memory header", 3: "in-memory descriptors", 4: "minimum-ID cache",
              5: "backing bytes", 6: "buffer position", 7: "live object content",
              8: "header/table region", 9: "backing length", 10: "handle presence", 11: "query answer", 12: "backend call reply", 13: "backend final contents",
              14: "storage-call trace", 15: "alignment arithmetic", 20: "image does not load in the model", 21: "NewVerifier result", 22: "Verify result",
              23: "verification callback reports", 24: "AnySignedBy", 25: "AllSignedBy",
              40: "siftool exit status", 41: "file after the siftool command", 42: "standard output of siftool dump",
              30: "image does not load in the model", 31: "NewSigner/Sign result", 32: "bytes after signing"}

TRUSTED_BASE = [
    "Coq 8.16.1 kernel and its bytecode VM (vm_compute); no native_compute",
    "axioms: none (every Print Assumptions reads 'Closed under the global context')",
    "translator harness/cmd/describe (reflection hook sif.VerifDescribe + go/ast patterns)",
    "hand-written SIF v1 tables in coq/Format.v and coq/SpecV1.v",
    "correspondence harness (Go: generators, recorder, error-class mapping, RLE writer) and coq/Exec.v comparison code; run.py parsing of 'M = []' and of Print Assumptions output",
    "no extraction is used",
    "modelled, not verified: all Go code of sylabs/sif, Go runtime, encoding/binary, os.File/kernel, third-party crypto and parsers",
]


def sh(cmd, cwd=None, env=None, timeout=None, capture=True):
    p = subprocess.run(cmd, cwd=cwd, env=env, timeout=timeout, shell=isinstance(cmd, str),
                       stdout=subprocess.PIPE if capture else None,
                       stderr=subprocess.STDOUT if capture else None, text=True)
    return p.returncode, (p.stdout or "")


class Lock:
    def __init__(self, name):
        os.makedirs(WORK, exist_ok=True)
        self.f = open(os.path.join(WORK, name), "w")

    def __enter__(self):
        fcntl.flock(self.f, fcntl.LOCK_EX)
        return self

    def __exit__(self, *a):
        fcntl.flock(self.f, fcntl.LOCK_UN)
        self.f.close()


def hygiene():
    """No admitted proofs, declared axioms or disabled kernel checks anywhere in the development."""
    bad = []
    for path in glob.glob(os.path.join(COQ, "**", "*.v"), recursive=True):
        text = open(path).read()
        text = re.sub(r"\(\*.*?\*\)", "", text, flags=re.S)
        for i, line in enumerate(text.splitlines(), 1):
            if FORBIDDEN.search(line):
                # `Variable`s inside sections are allowed; Hypothesis is not used at all
                bad.append("%s:%d: %s" % (os.path.relpath(path, ROOT), i, line.strip()))
    return bad


def repo_fingerprint():
    h = hashlib.sha256()
    for dp, dn, fn in os.walk(REPO):
        dn[:] = sorted(d for d in dn if d not in (".git",))
        for f in sorted(fn):
            if f.endswith(".go") or f in ("go.mod", "go.sum"):
                p = os.path.join(dp, f)
                h.update(p.encode())
                try:
                    h.update(open(p, "rb").read())
                except OSError:
                    pass
    return h.hexdigest()


def build_all(log):
    """Rebuild harness from /repo's working tree, regenerate coq/gen, build the Coq development.
    Returns dict with keys ok_go, ok_gen, coq_failed (list of .v files that failed)."""
    res = {"ok_go": True, "ok_gen": True, "coq_failed": [], "go_out": "", "gen_out": "", "coq_out": ""}
    os.makedirs(BIN, exist_ok=True)
    shutil.copyfile(os.path.join(REPO, "go.sum"), os.path.join(HARNESS, "go.sum"))
    rc, out = sh(["go", "build", "-tags", "verif", "-o", BIN + "/", "./cmd/..."], cwd=HARNESS, env=GOENV, timeout=600)
    res["go_out"] = out
    if rc != 0:
        res["ok_go"] = False
        log("harness build against /repo failed:\n" + out[-2000:])
        return res
    gen_tmp = os.path.join(WORK, "gen.new")
    shutil.rmtree(gen_tmp, ignore_errors=True)
    rc, out = sh([os.path.join(BIN, "describe"), REPO, gen_tmp], timeout=120)
    res["gen_out"] = out
    if rc != 0:
        res["ok_gen"] = False
        log("translator failed (source pattern no longer recognised):\n" + out[-2000:])
    else:
        os.makedirs(os.path.join(COQ, "gen"), exist_ok=True)
        for f in os.listdir(gen_tmp):
            new = open(os.path.join(gen_tmp, f)).read()
            dst = os.path.join(COQ, "gen", f)
            if not os.path.exists(dst) or open(dst).read() != new:
                open(dst, "w").write(new)
    if not os.path.exists(os.path.join(COQ, "Makefile")):
        sh("coq_makefile -f _CoqProject -o Makefile", cwd=COQ)
    rc, out = sh("ulimit -s unlimited; timeout 1500 make -k -j16 2>&1", cwd=COQ, timeout=1600)
    res["coq_out"] = out
    if rc != 0:
        failed = re.findall(r"\*\*\* \[Makefile[^\]]*: ([^\]]+)\.vo\] Error", out)
        res["coq_failed"] = sorted(set(failed))
        log("Coq build: failed files: %s" % res["coq_failed"])
    return res


def check_property_file(prop):
    """Re-check Properties/<prop>.v with a fresh coqc; count theorems and assumption reports."""
    path = os.path.join("Properties", prop + ".v")
    full = os.path.join(COQ, path)
    if not os.path.exists(full):
        return {"exists": False, "theorems": [], "closed": 0, "open": [], "ok": False, "out": "missing"}
    src = open(full).read()
    theorems = re.findall(r"^(?:Theorem|Lemma|Corollary)\s+(\w+)", src, flags=re.M)
    prints = re.findall(r"^Print Assumptions\s+(\w+)\.", src, flags=re.M)
    rc, out = sh("ulimit -s unlimited; timeout 900 coqc -Q . Sif %s" % path, cwd=COQ, timeout=1000)
    closed = out.count("Closed under the global context")
    axioms = []
    if "Axioms:" in out:
        axioms = re.findall(r"^(\S+)\s*:", out.split("Axioms:", 1)[1], flags=re.M)
    ok = rc == 0 and closed == len(prints) and set(prints) == set(theorems) and not axioms
    return {"exists": True, "theorems": theorems, "prints": prints, "closed": closed, "axioms": axioms,
            "ok": ok, "rc": rc, "out": out[-3000:]}


def parse_M(out):
    m = re.search(r"M\s*=\s*(\[.*?\])\s*:\s*list", out, flags=re.S)
    if not m:
        return None
    body = m.group(1)
    return [tuple(int(x) for x in t) for t in re.findall(r"\(\s*(-?\d+)\s*,\s*(-?\d+)\s*,\s*(-?\d+)\s*\)", body)]


def run_family(family, args, outdir, log):
    """Run a harness family and evaluate the model on its cases. Returns (summary, mismatches, errors)."""
    shutil.rmtree(outdir, ignore_errors=True)
    os.makedirs(outdir)
    if family == "concurrent":
        # built with the race detector; its reports go to <outdir>/race.<pid>
        rc, out = sh(["go", "build", "-race", "-tags", "verif", "-o", os.path.join(BIN, "drive_race"), "./cmd/drive"],
                     cwd=HARNESS, env=dict(GOENV, CGO_ENABLED="1"), timeout=900)
        if rc != 0:
            return None, None, "race-detector build failed: " + out[-2000:]
        env = dict(os.environ, GORACE="log_path=%s exitcode=0" % os.path.join(outdir, "race"))
        rc, out = sh([os.path.join(BIN, "drive_race"), family, "-out", outdir] + args, env=env, timeout=3000)
        if rc != 0:
            # the process that ran the concurrent readers died (a fatal runtime error such as
            # "concurrent map writes" cannot be recovered): that is the failing schedule
            if "fatal error:" in out or "panic:" in out:
                i = max(out.find("fatal error:"), out.find("panic:"))
                summary = {"family": "concurrent", "cases": 0, "steps": 0, "distinct_nontrivial": 0, "files": [],
                           "oracle_findings": [{"property": "C18", "case": 0, "step": 0,
                                                "what": "the process running concurrent read-only calls on one handle died: " + out[i:i + 300],
                                                "input": out[i:i + 3000]}]}
                return summary, [], None
            return None, None, "harness failed: " + out[-2000:]
        summary = json.load(open(os.path.join(outdir, "summary.json")))
        races = sorted(f for f in os.listdir(outdir) if f.startswith("race."))
        summary.setdefault("oracle_checks", {})["race-detector-reports"] = len(races)
        for f in races[:5]:
            txt = open(os.path.join(outdir, f)).read()
            summary["oracle_findings"] = (summary.get("oracle_findings") or []) + [{
                "property": "C18", "case": 0, "step": 0,
                "what": "the race detector reports a data race between read-only calls on one handle",
                "input": txt[:3000]}]
        return summary, [], None
    rc, out = sh([os.path.join(BIN, "drive"), family, "-out", outdir] + args, timeout=3000)
    if rc != 0:
        return None, None, "harness failed: " + out[-2000:]
    summary = json.load(open(os.path.join(outdir, "summary.json")))
    # at most one coqc per core at a time (a shard can take around 1 GB)
    import concurrent.futures

    def one(f):
        cmd = "ulimit -s unlimited; ulimit -v 16000000; timeout 3000 coqc -Q %s Sif %s" % (COQ, f)
        p = subprocess.run(cmd, shell=True, cwd=outdir, stdout=subprocess.PIPE, stderr=subprocess.STDOUT, text=True)
        return f, p.returncode, p.stdout

    mism, errors = [], []
    with concurrent.futures.ThreadPoolExecutor(max_workers=min(16, os.cpu_count() or 4)) as ex:
        for f, rc2, out in ex.map(one, summary.get("files") or []):
            M = parse_M(out)
            if rc2 != 0 or M is None:
                errors.append("%s: coqc rc=%s: %s" % (f, rc2, out[-1500:]))
            else:
                mism.extend(M)
    return summary, mism, ("\n".join(errors) if errors else None)


def write_replay(prop, kind, payload):
    os.makedirs(REPLAYS, exist_ok=True)
    payload = dict(payload, property=prop, kind=kind, created=time.strftime("%Y-%m-%dT%H:%M:%S"))
    h = hashlib.sha256(json.dumps(payload, sort_keys=True, default=str).encode()).hexdigest()[:12]
    path = os.path.join(REPLAYS, "%s-%s.json" % (prop, h))
    json.dump(payload, open(path, "w"), indent=1, default=str)
    return path


def load_known():
    p = os.path.join(ROOT, "known_findings.json")
    if not os.path.exists(p):
        return {"known": [], "fixed": []}
    return json.load(open(p))


# ---------------------------------------------------------------------------------------------
# property registry: which case families serve a property, with which sizes

def hist_args(tier, seed, variant=""):
    if tier == "quick":
        return ["-seed", str(seed), "-n", "96", "-shards", "16", "-maxcap", "12", "-maxops", "12"]
    return ["-seed", str(seed), "-n", "1600", "-shards", "64", "-maxcap", "16", "-maxops", "30", "-bigevery", "60"]


def load_args(tier, seed, variant=""):
    if tier == "quick":
        return ["-seed", str(seed), "-n", "48", "-shards", "12", "-maxcap", "8", "-maxops", "5", "-corpus", "50000"]
    return ["-seed", str(seed), "-n", "800", "-shards", "48", "-maxcap", "12", "-maxops", "12", "-corpus", "400000"]


def backend_args(tier, seed, variant=""):
    if tier == "quick":
        return ["-seed", str(seed), "-n", "150", "-shards", "8"]
    return ["-seed", str(seed), "-n", "4000", "-shards", "32"]


def lockstep_args(tier, seed, variant=""):
    if tier == "quick":
        return ["-seed", str(seed), "-n", "60", "-shards", "12", "-maxcap", "8", "-maxops", "10"]
    return ["-seed", str(seed), "-n", "800", "-shards", "48", "-maxcap", "16", "-maxops", "30", "-bigevery", "60"]


def determ_args(tier, seed, variant=""):
    if tier == "quick":
        return ["-seed", str(seed), "-n", "80", "-shards", "12", "-maxcap", "8", "-maxops", "10"]
    return ["-seed", str(seed), "-n", "1200", "-shards", "48", "-maxcap", "16", "-maxops", "30", "-bigevery", "60"]


def crash_args(tier, seed, variant=""):
    if tier == "quick":
        return ["-seed", str(seed), "-n", "90", "-shards", "16", "-maxcap", "8", "-maxops", "10"]
    return ["-seed", str(seed), "-n", "400", "-shards", "48", "-maxcap", "12", "-maxops", "24", "-bigevery", "40", "-thorough"]


def siftool_args(tier, seed, variant=""):
    if tier == "quick":
        return ["-seed", str(seed), "-n", "48", "-shards", "12", "-maxops", "10"]
    return ["-seed", str(seed), "-n", "600", "-shards", "48", "-maxops", "24", "-thorough"]


def hostile_args(tier, seed, variant=""):
    return ["-seed", str(seed), "-n", "0"] + (["-thorough"] if tier != "quick" else [])


def concurrent_args(tier, seed, variant=""):
    return ["-seed", str(seed), "-n", "10" if tier == "quick" else "150"]


def hist_small_args(tier, seed, variant=""):
    if tier == "quick":
        return ["-seed", str(seed), "-n", "32", "-shards", "8", "-maxcap", "10", "-maxops", "8", "-queries", "4"]
    return ["-seed", str(seed), "-n", "600", "-shards", "48", "-maxcap", "16", "-maxops", "20", "-queries", "6"]


def verify_args(mode, nq, nt):
    def f(tier, seed, variant=""):
        if tier == "quick":
            return ["-mode", mode, "-seed", str(seed), "-n", str(nq), "-shards", "16"]
        return ["-mode", mode, "-seed", str(seed), "-n", str(nt), "-shards", "64", "-thorough"]
    return f


FAMILIES = {
    "C09": [("crash", crash_args)],
    "C15": [("siftool", siftool_args)],
    "C10": [("hostile", hostile_args), ("load", load_args), ("verify", verify_args("tamper", 24, 300))],
    "C18": [("concurrent", concurrent_args), ("hist", hist_small_args), ("verify", verify_args("signedby", 20, 200))],
    "C04": [("verify", verify_args("tamper", 36, 100000))],
    "C05": [("verify", verify_args("coverage", 80, 100000)), ("verify", verify_args("tamper", 30, 400))],
    "C06": [("verify", verify_args("signverify", 40, 600)), ("verify", verify_args("keys", 24, 200))],
    "C07": [("verify", verify_args("keys", 48, 600))],
    "C16": [("verify", verify_args("legacy", 10, 200))],
    "C17": [("verify", verify_args("signedby", 50, 800))],
    "C01": [("hist", hist_args)],
    "C12": [("determ", determ_args), ("verify", verify_args("signverify", 24, 300))],
    "C14": [("backend", backend_args), ("lockstep", lockstep_args)],
    "C02": [("hist", hist_args), ("load", load_args)],
    "C03": [("hist", hist_args), ("load", load_args)],
    "C08": [("hist", hist_args), ("load", load_args)],
    "C11": [("hist", hist_args), ("load", load_args)],
    "C13": [("hist", hist_args), ("load", load_args)],
}


def decide(prop, tier, seed):
    t0 = time.time()
    logs = []

    def log(s):
        logs.append(s)
        print(s, flush=True)

    violations = []   # (replay_path, suffix)
    obligations = 0
    discharged = 0
    coverage = {}
    with Lock("build.lock"):
        bad = hygiene()
        obligations += 1
        if bad:
            log("hygiene: forbidden constructs:\n" + "\n".join(bad))
            violations.append((write_replay(prop, "hygiene", {"lines": bad}), "no-failing-input-found"))
        else:
            discharged += 1
        b = build_all(log)
    pf = None
    broken = []
    if not b["ok_go"]:
        broken.append("harness does not build against /repo")
    if not b["ok_gen"]:
        broken.append("translator: " + b["gen_out"].strip()[-300:])
    if b["ok_go"]:
        pf = check_property_file(prop)
        obligations += len(pf.get("theorems", [])) or 1
        if pf["ok"]:
            discharged += len(pf["theorems"])
        else:
            broken.append("Properties/%s.v no longer checks: %s" % (prop, pf["out"][-600:]))
        coverage["theorems"] = pf.get("theorems", [])
        coverage["assumptions"] = "Closed under the global context" if pf["ok"] else pf.get("axioms")

    # correspondence
    total_cases = total_steps = 0
    distinct = 0
    samples = []
    fam_summaries = {}
    oracle_findings = []
    relevant = CODES.get(prop, set(range(1, 11)))
    if b["ok_go"]:
        for k, (fam, argf) in enumerate(FAMILIES.get(prop, [])):
            outdir = os.path.join(WORK, "%s-%s%d-%d" % (prop, fam, k, os.getpid()))
            summary, mism, err = run_family(fam, argf(tier, seed), outdir, log)
            if err:
                broken.append("correspondence %s: %s" % (fam, err[-600:]))
                obligations += 1
            else:
                shards = len(summary.get("files") or []) or 1   # a family without Coq cases is one obligation
                obligations += shards
                rel = [m for m in mism if m[2] in relevant]
                if rel:
                    bad_cases = sorted({m[0] for m in rel})
                    broken.append("correspondence %s: model and implementation differ on cases %s: %s" % (
                        fam, bad_cases[:10], [(m[0], m[1], CODE_NAMES.get(m[2], m[2])) for m in rel[:12]]))
                    discharged += max(0, shards - len(bad_cases))
                    keep = os.path.join(REPLAYS, "%s-%s-cases" % (prop, fam))
                    shutil.rmtree(keep, ignore_errors=True)
                    os.makedirs(REPLAYS, exist_ok=True)
                    shutil.copytree(outdir, keep)
                else:
                    discharged += shards
                total_cases += summary["cases"]
                total_steps += summary["steps"]
                distinct += summary["distinct_nontrivial"]
                samples.extend((summary.get("samples") or [])[:2])
                fam_summaries[summary.get("family", fam)] = {k: summary.get(k) for k in ("cases", "steps", "queries", "op_kinds", "results", "backends",
                                                                   "capacities", "clock_brackets", "clock_out_of_bracket",
                                                                   "oracle_checks", "extra")}
                for f in summary.get("oracle_findings") or []:
                    if f["property"] == prop:
                        oracle_findings.append(f)
            shutil.rmtree(outdir, ignore_errors=True)

    # known findings
    known = load_known()
    known_classes = {k["class"]: k for k in known.get("known", []) if k["property"] == prop}
    known_classes.pop(None, None)
    new_findings = [f for f in oracle_findings if f.get("class") not in known_classes]
    seen_known = sorted({f["class"] for f in oracle_findings if f.get("class") in known_classes})
    witness_results = {}
    for k in known.get("known", []):
        if k["property"] == prop and b["ok_go"]:
            rc, out = sh([os.path.join(BIN, "drive"), "witness", k["witness"]], timeout=120)
            still = out.startswith("true")
            witness_results[k["id"]] = out.strip()
            if still:
                print("KNOWN-FINDING: property=%s %s: %s" % (prop, k["id"], k["what"]), flush=True)
            else:
                log("known finding %s no longer reproduces on its witness: %s" % (k["id"], out.strip()))
    coverage["known_finding_witnesses"] = witness_results

    if new_findings:
        path = write_replay(prop, "failing-input", {"findings": new_findings[:20], "seed": seed, "tier": tier})
        violations.append((path, ""))
    elif broken:
        path = write_replay(prop, "broken-obligation", {"broken": broken, "seed": seed, "tier": tier,
                                                        "note": "no failing input found by the implementation-side search"})
        violations.append((path, "no-failing-input-found"))

    wall = time.time() - t0
    ev = {
        "property_id": prop, "tier": tier, "seed": seed, "level": "proof",
        "coverage": dict(coverage, **{
            "obligations": obligations, "discharged": discharged,
            "checker_cmd": "make -C coq (coqc 8.16.1, full .vo build) + coqc Properties/%s.v + coqc corr shards (vm_compute)" % prop,
            "trusted_base": TRUSTED_BASE,
            "evaluations": total_steps + total_cases, "distinct_nontrivial": distinct,
            "rule": "random histories from one splitmix64 seed; distinct = distinct (capacity, result sequence) signatures with at least one successful mutation",
            "samples": samples or ["(no correspondence cases for this property)"],
            "traces_validated_against_impl": total_cases,
            "families": fam_summaries,
            "known_findings_seen": seen_known,
            "broken": broken,
        }),
        "assumptions": ["see trusted_base; model written by hand, tied by correspondence on the cases counted here"],
        "wall_s": round(wall, 1), "violations": len(violations),
    }
    os.makedirs(EVID, exist_ok=True)
    json.dump(ev, open(os.path.join(EVID, prop + ".json"), "w"), indent=1)
    for path, suffix in violations[:1]:
        print(("VIOLATION property=%s replay=%s %s" % (prop, path, suffix)).rstrip(), flush=True)
    print("%s %s: obligations %d/%d, cases %d, steps %d, %.1fs" % (
        prop, "FAIL" if violations else "ok", discharged, obligations, total_cases, total_steps, wall), flush=True)
    return 1 if violations else 0


def setup():
    os.makedirs(WORK, exist_ok=True)
    msgs = []
    with Lock("build.lock"):
        b = build_all(msgs.append)
    print("\n".join(msgs))
    if not b["ok_go"] or not b["ok_gen"] or b["coq_failed"]:
        print(b["go_out"][-2000:], b["gen_out"][-2000:], b["coq_out"][-4000:])
        return 1
    print("setup ok")
    return 0


def main():
    if len(sys.argv) < 2:
        print(__doc__)
        return 2
    cmd = sys.argv[1]
    if cmd == "setup":
        return setup()
    if cmd == "replay":
        print(open(sys.argv[2]).read())
        return 0
    tier = os.environ.get("VERIF_TIER", "quick")
    if "--tier" in sys.argv:
        tier = sys.argv[sys.argv.index("--tier") + 1]
    seed = int(os.environ.get("VERIF_SEED", "1"))
    if "--seed" in sys.argv:
        seed = int(sys.argv[sys.argv.index("--seed") + 1])
    return decide(cmd, tier, seed)


if __name__ == "__main__":
    sys.exit(main())

#!/bin/bash
# runs every claimed check's quick command on the current tree (refreshes evidence/)
cd /verif
fail=0
for p in $(python3 -c "import json;print(' '.join(c['property_id'] for c in json.load(open('MANIFEST.json'))['checks']))"); do
  python3 run.py $p --tier ${1:-quick} | tail -1 || fail=1
done
exit $fail

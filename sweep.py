#!/usr/bin/env python3
"""Operator-mutation sweep (development aid, not a registered check).

phase 1:  sweep.py gen [-j N] [-per FILE_BUDGET]   small syntactic changes to /repo's sources, one
          per (line, operator), kept when the tree still builds and the repository's own suite passes;
          survivors are written to /tmp/sw/survivors/<id>/patch.diff
phase 2:  sweep.py check [-j N]                     every survivor against the quick checks of the
          properties its file can affect (scratch copies as in pmutants.py); prints the ones no
          check reports, for triage (an unreported survivor is either equivalent, outside the 18
          properties, or a gap)."""
import json, os, re, subprocess, sys, threading, queue, shutil, random, hashlib
ROOT = os.path.dirname(os.path.abspath(__file__))
SW = "/tmp/sw"
ENV = dict(os.environ, GOFLAGS="-mod=mod", GOPROXY="off", GOSUMDB="off", GOTOOLCHAIN="local")


def sh(c, **kw):
    return subprocess.run(c, shell=True, stdout=subprocess.PIPE, stderr=subprocess.STDOUT, text=True, **kw)


FILES = {  # file -> (budget weight, properties whose quick checks may see it)
    "pkg/integrity/sign.go": (3, ["C06", "C12"]),
    "pkg/integrity/clearsign.go": (3, ["C07", "C16", "C04"]),
    "pkg/integrity/dsse.go": (3, ["C07", "C04"]),
    "pkg/integrity/digest.go": (3, ["C04", "C16", "C06"]),
    "pkg/integrity/metadata.go": (3, ["C04", "C05", "C06"]),
    "pkg/integrity/select.go": (3, ["C05", "C16", "C17", "C06"]),
    "pkg/integrity/result.go": (3, ["C07", "C17"]),
    "pkg/integrity/verify.go": (1, ["C04", "C05", "C07", "C16", "C17"]),
    "pkg/sif/descriptor_input.go": (3, ["C01", "C02", "C15"]),
    "pkg/sif/sif.go": (3, ["C01", "C11", "C02"]),
    "pkg/sif/arch.go": (3, ["C01", "C02"]),
    "pkg/sif/add.go": (3, ["C02", "C09", "C01", "C12"]),
    "pkg/sif/set.go": (3, ["C02", "C09", "C08", "C12"]),
    "pkg/sif/select.go": (2, ["C13", "C02"]),
    "pkg/sif/load.go": (2, ["C11", "C10", "C08"]),
    "pkg/sif/descriptor.go": (1, ["C01", "C13", "C04", "C08"]),
    "pkg/sif/create.go": (1, ["C02", "C03", "C12", "C09"]),
    "pkg/sif/delete.go": (1, ["C03", "C02", "C09", "C14"]),
    "pkg/sif/buffer.go": (2, ["C14", "C12"]),
    "pkg/siftool/add.go": (3, ["C15"]), "pkg/siftool/del.go": (3, ["C15"]), "pkg/siftool/dump.go": (3, ["C15"]),
    "pkg/siftool/setprim.go": (3, ["C15"]), "pkg/siftool/new.go": (3, ["C15"]), "pkg/siftool/info.go": (3, ["C15"]),
    "internal/app/siftool/modif.go": (3, ["C15"]), "internal/app/siftool/info.go": (3, ["C15", "C10"]),
}

OPS = [
    ("==", "!="), ("!=", "=="), ("<=", "<"), (">=", ">"), (" < ", " <= "), (" > ", " >= "),
    ("&&", "||"), ("||", "&&"), (" + 1", ""), (" - 1", ""), ("return true", "return false"),
    ("return false", "return true"), ("continue", "break"), ("err != nil", "false"), ("!ok", "ok"),
    (" + ", " - "), ("[:n]", "[:n-1]"), ("<<", ">>"), ("&^", "&"), (" | ", " & "),
    # second set
    ("if !", "if "), (" = true", " = false"), (" = false", " = true"), ("return err", "return nil"),
    ('return fmt.Errorf("%w", err)', "return nil"), (" > ", " < "), (" < ", " > "), (" >= ", " < "), (" <= ", " > "),
    ("== 0", "== 1"), ("!= 0", "!= 1"), (" - ", " + "), ("len(", "1+len("), ("[0]", "[1]"), ("uint32(", "uint16("),
    ("int64(", "int32("), ("++", "--"), ("0, ", "1, "), (", 0)", ", 1)"),
]
if os.environ.get("SWEEP_OPS") == "2":
    OPS = OPS[20:]


def outside_string(line, idx):
    return line[:idx].count('"') % 2 == 0 and line[:idx].count('`') % 2 == 0


def candidates(path, text):
    out = []
    in_import = False
    for n, line in enumerate(text.split("\n")):
        s = line.strip()
        if s.startswith("import ("):
            in_import = True
        if in_import:
            if s == ")":
                in_import = False
            continue
        if not s or s.startswith("//") or s.startswith("func ") or s.startswith("package ") or s.startswith("*") or "nolint" in s:
            continue
        code = line.split("//")[0]
        for a, b in OPS:
            i = code.find(a)
            if i >= 0 and outside_string(code, i):
                if a in ("<=", ">=") and code[i:i + 3] in ("<<=", ">>="):
                    continue
                if a == "==" and code[i - 1:i] in ("!", "<", ">", "="):
                    continue
                out.append((n, a, b, i))
        # drop a whole simple statement
        if os.environ.get("SWEEP_OPS") != "2" and re.match(r"^\s+[A-Za-z_][\w\.\[\]]*(\(.*\)|\s(=|\+=|-=|\+\+|--).*)$", code) and not s.startswith("return") and not s.endswith("{"):
            out.append((n, "<stmt>", "", 0))
    return out


def mutate(text, cand):
    n, a, b, i = cand
    lines = text.split("\n")
    if a == "<stmt>":
        lines[n] = re.match(r"^\s*", lines[n]).group(0) + "_ = 0 // removed"
        lines[n] = ""
    else:
        lines[n] = lines[n][:i] + b + lines[n][i + len(a):]
    return "\n".join(lines)


def gen(N, per):
    os.makedirs(SW + "/survivors", exist_ok=True)
    rnd = random.Random(int(os.environ.get("SWEEP_SEED", "20261001")))
    work = []
    for f, (w, props) in FILES.items():
        p = "/repo/" + f
        if not os.path.exists(p):
            continue
        text = open(p).read()
        cs = candidates(f, text)
        rnd.shuffle(cs)
        for c in cs[: per * w]:
            work.append((f, c))
    rnd.shuffle(work)
    print("candidates:", len(work), flush=True)
    q = queue.Queue()
    for x in work:
        q.put(x)
    lock = threading.Lock()
    stats = {"nobuild": 0, "killed": 0, "survived": 0}

    def worker(k):
        wt = "%s/wt%d" % (SW, k)
        sh("git -C /repo worktree remove --force %s" % wt)
        assert sh("git -C /repo worktree add -q --detach %s HEAD" % wt).returncode == 0
        while True:
            try:
                f, c = q.get_nowait()
            except queue.Empty:
                break
            orig = open("%s/%s" % (wt, f)).read()
            new = mutate(orig, c)
            if new == orig:
                continue
            open("%s/%s" % (wt, f), "w").write(new)
            pkg = "./" + os.path.dirname(f) + "/..."
            r = sh("cd %s && go build ./... && go test -vet=off -count=1 -run '^$' ./... >/dev/null" % wt, env=ENV)
            res = "nobuild"
            if r.returncode == 0:
                r = sh("cd %s && go test -vet=off -count=1 %s >/dev/null 2>&1 && go test -vet=off -count=1 ./... >/dev/null 2>&1" % (wt, pkg), env=ENV)
                res = "survived" if r.returncode == 0 else "killed"
            if res == "survived":
                mid = "%s_L%d_%s" % (f.replace("/", "_").replace(".go", ""), c[0] + 1, hashlib.md5((c[1] + c[2]).encode()).hexdigest()[:4])
                d = "%s/survivors/%s" % (SW, mid)
                os.makedirs(d, exist_ok=True)
                open(d + "/patch.diff", "w").write(sh("git -C %s diff" % wt).stdout)
                json.dump({"file": f, "line": c[0] + 1, "op": [c[1], c[2]], "before": orig.split("\n")[c[0]].strip(),
                           "props": FILES[f][1]}, open(d + "/meta.json", "w"))
            open("%s/%s" % (wt, f), "w").write(orig)
            with lock:
                stats[res] += 1
                tot = sum(stats.values())
                if tot % 25 == 0:
                    print(tot, stats, flush=True)
        sh("git -C /repo worktree remove --force %s" % wt)

    ts = [threading.Thread(target=worker, args=(k,)) for k in range(N)]
    for t in ts:
        t.start()
    for t in ts:
        t.join()
    sh("git -C /repo worktree prune")
    print("done", stats)


def check(N):
    ids = sorted(os.listdir(SW + "/survivors"))
    q = queue.Queue()
    for i in ids:
        if not os.path.exists("%s/survivors/%s/result.json" % (SW, i)):
            q.put(i)
    lock = threading.Lock()

    def worker(k):
        base = "%s/pv%d" % (SW, k)
        shutil.rmtree(base, ignore_errors=True)
        os.makedirs(base)
        assert sh("rsync -a --exclude .git --exclude replays --exclude .work --exclude evidence %s/ %s/verif/" % (ROOT, base)).returncode == 0
        os.makedirs(base + "/verif/evidence", exist_ok=True)
        sh("git -C /repo worktree remove --force %s/repo" % base)
        assert sh("git -C /repo worktree add -q --detach %s/repo HEAD" % base).returncode == 0
        sh("grep -rlZ '/repo' %s/verif/harness %s/verif/run.py | xargs -0 sed -i 's#/repo#%s/repo#g'" % (base, base, base))
        while True:
            try:
                i = q.get_nowait()
            except queue.Empty:
                break
            d = "%s/survivors/%s" % (SW, i)
            meta = json.load(open(d + "/meta.json"))
            if sh("git -C %s/repo apply %s/patch.diff" % (base, d)).returncode != 0:
                continue
            res = {}
            for p in meta["props"]:
                out = sh("cd %s/verif && python3 run.py %s --tier quick" % (base, p), env=ENV)
                viol = [l for l in out.stdout.splitlines() if l.startswith("VIOLATION")]
                res[p] = "caught" if (out.returncode == 1 and viol) else "quiet"
                if res[p] == "caught":
                    break
            sh("git -C %s/repo checkout -- ." % base)
            json.dump(res, open(d + "/result.json", "w"))
            with lock:
                print(i, res, "|", meta["before"][:90], "|", meta["op"], flush=True)
        sh("git -C /repo worktree remove --force %s/repo" % base)
        shutil.rmtree(base, ignore_errors=True)

    ts = [threading.Thread(target=worker, args=(k,)) for k in range(N)]
    for t in ts:
        t.start()
    for t in ts:
        t.join()
    sh("git -C /repo worktree prune")
    quiet = []
    for i in ids:
        rf = "%s/survivors/%s/result.json" % (SW, i)
        if os.path.exists(rf) and "caught" not in json.load(open(rf)).values():
            quiet.append(i)
    print("not reported by any selected check (%d of %d):" % (len(quiet), len(ids)))
    for i in quiet:
        m = json.load(open("%s/survivors/%s/meta.json" % (SW, i)))
        print(" ", i, "|", m["before"][:100], "|", m["op"])


if __name__ == "__main__":
    a = sys.argv[1:]
    N, per = 6, 12
    while len(a) > 1 and a[1] in ("-j", "-per"):
        if a[1] == "-j":
            N = int(a[2])
        else:
            per = int(a[2])
        a = [a[0]] + a[3:]
    {"gen": lambda: gen(N, per), "check": lambda: check(N)}[a[0]]()

#!/usr/bin/env python3
"""Parallel self-test (development aid, not a registered check): like mutants.py, but each worker
has its own scratch copy of /verif and its own worktree of /repo under /tmp/pv/<k>, removed at the
end.  usage: pmutants.py [-j N] [ids...]"""
import json, os, subprocess, sys, glob, re, threading, queue, shutil
ROOT = os.path.dirname(os.path.abspath(__file__))


def sh(c, **kw):
    return subprocess.run(c, shell=True, stdout=subprocess.PIPE, stderr=subprocess.STDOUT, text=True, **kw)


args = sys.argv[1:]
N = 6
if args and args[0] == "-j":
    N = int(args[1]); args = args[2:]
ids = args or sorted(os.path.basename(d) for d in glob.glob(ROOT + "/seeded/C*-m*"))
assert sh("git -C /repo status --porcelain").stdout.strip() == "", "/repo not clean"
PV = "/tmp/pv"
q = queue.Queue()
for i in ids:
    q.put(i)
results = {}
lock = threading.Lock()


def setup(k):
    base = "%s/%d" % (PV, k)
    shutil.rmtree(base, ignore_errors=True)
    os.makedirs(base)
    r = sh("rsync -a --exclude .git --exclude replays --exclude .work --exclude evidence %s/ %s/verif/" % (ROOT, base))
    assert r.returncode == 0, r.stdout
    os.makedirs(base + "/verif/evidence", exist_ok=True)
    r = sh("git -C /repo worktree add -q --detach %s/repo HEAD" % base)
    assert r.returncode == 0, r.stdout
    sh("grep -rlZ '/repo' %s/verif/harness %s/verif/run.py | xargs -0 sed -i 's#/repo#%s/repo#g'" % (base, base, base))
    return base


def worker(k):
    base = setup(k)
    env = dict(os.environ, GOFLAGS="-mod=mod", GOPROXY="off", GOSUMDB="off", GOTOOLCHAIN="local")
    while True:
        try:
            i = q.get_nowait()
        except queue.Empty:
            break
        p = i.split("-")[0]
        r = sh("git -C %s/repo apply %s/seeded/%s/patch.diff" % (base, ROOT, i))
        if r.returncode != 0:
            print(i, "patch does not apply", r.stdout, flush=True)
            continue
        out = sh("cd %s/verif && python3 run.py %s --tier quick" % (base, p), env=env)
        sh("git -C %s/repo checkout -- ." % base)
        viol = [l for l in out.stdout.splitlines() if l.startswith("VIOLATION")]
        caught = out.returncode == 1 and bool(viol)
        what = ""
        m = re.search(r"replay=(\S+)", viol[0]) if viol else None
        if m and os.path.exists(m.group(1)):
            d = json.load(open(m.group(1)))
            if "findings" in d:
                what = d["findings"][0]["what"][:200]
            else:
                what = "BROKEN " + d["broken"][0][:200]
        line = (viol[0] if viol else "").replace(base + "/verif", "/verif")
        with lock:
            results[i] = {p: {"caught": caught, "line": line, "rc": out.returncode, "what": what}}
            print(i, p, "CAUGHT" if caught else "missed", "NO-INPUT" if "no-failing" in line else "", "|",
                  what[:110].replace("\n", " "), flush=True)


ts = [threading.Thread(target=worker, args=(k,)) for k in range(min(N, len(ids)))]
for t in ts:
    t.start()
for t in ts:
    t.join()
for k in range(N):
    sh("git -C /repo worktree remove --force %s/%d/repo" % (PV, k))
sh("git -C /repo worktree prune")
shutil.rmtree(PV, ignore_errors=True)
resf = ROOT + "/seeded/RESULTS.json"
allr = json.load(open(resf)) if os.path.exists(resf) else {}
allr.update(results)
json.dump(allr, open(resf, "w"), indent=1, sort_keys=True)
missed = [i for i in ids if not results.get(i, {}).get(i.split("-")[0], {}).get("caught")]
print("missed:", missed)
